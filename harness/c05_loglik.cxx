// C05 — Poisson log-likelihood quantities equal their textbook definition.
//
// One Case = a small geometry (explicit P from a fresh symmetry-free cache-free ray-tracing matrix, TOF rows for
// TOF data), a likelihood configuration (additive term, normalisation, zero_seg0_end_planes,
// max_segment_num_to_process, use_subset_sensitivities, use_tofsens, num_subsets, prior), data generated from the
// reference model and an operation sequence "ops" = order in which value / subset gradient / gradient+sensitivity /
// subset sensitivity / Hessian x v / approximate Hessian x v (and their all-subsets and penalised forms) are requested
// after set_up.  Every returned quantity is compared with the double-precision formula on the explicit P; a second
// object executes the requests in reverse order and must return the same numbers.
//
// OBJECT HISTORIES (second half of the generated cases): the Case additionally has "hist" = list of earlier stages.
// ONE object is configured with the settings of stage 0, set_up and asked the stage's requests; then, stage by stage,
// exactly the setters whose value changed (plus redundant ones, "touch" bits) are called, set_up(target) is called again
// (the class documents "After using any of these, you have to call set_up()") and the stage's requests are made.  After
// every set_up the quantities must equal the explicit-P reference for the settings of THAT stage; after the last set_up
// (the settings of the Case itself) they must in addition equal those of a freshly constructed twin.
#include "explicit_p.h"
#include "stir/ProjDataInMemory.h"
#include "stir/ExamInfo.h"
#include "stir/ViewSegmentNumbers.h"
#include "stir/recon_buildblock/find_basic_vs_nums_in_subsets.h"
#include "stir/DataSymmetriesForViewSegmentNumbers.h"
#include "stir/recon_buildblock/ProjectorByBinPairUsingProjMatrixByBin.h"
#include "stir/recon_buildblock/PoissonLogLikelihoodWithLinearModelForMeanAndProjData.h"
#include "stir/recon_buildblock/BinNormalisationFromProjData.h"
#include "stir/recon_buildblock/ChainedBinNormalisation.h"
#include "stir/recon_buildblock/TrivialBinNormalisation.h"
#include "stir/recon_buildblock/QuadraticPrior.h"
#include <map>
#include <set>
#include <algorithm>
#include <numeric>
#include <cstring>
#include <unistd.h>
#include <sys/stat.h>
#include <dirent.h>

#ifndef __has_feature
#  define __has_feature(x) 0
#endif
#if defined(__SANITIZE_ADDRESS__) || __has_feature(address_sanitizer)
#  define C05_SANITIZED 1
#else
#  define C05_SANITIZED 0
#endif

using namespace vf;
using namespace stir;

namespace {

typedef DiscretisedDensity<3, float> Target;
typedef PoissonLogLikelihoodWithLinearModelForMeanAndProjData<Target> Obj;

// calibrated tolerances (see props.d/C05.py; observed maxima are recorded as stats().maxi)
const double TOL_REF = 2e-5;   // quantity vs double-precision reference, relative to the magnitude of the object
const double TOL_SAME = 1e-6;  // same request, other history / other object
const double TOL_PRIOR = 1e-5; // penalised = unpenalised - prior share
const double TOL_SUM = 1e-5;   // sum over subsets vs one-subset object (different float summation order)

bool
no_exclude()
{
  static const bool v = std::getenv("VERIF_NO_EXCLUDE") != nullptr;
  return v;
}

// is the input class of known finding 'id' part of the search? (all of them with VERIF_NO_EXCLUDE=1; development /
// triage aid: VERIF_C05_INCLUDE=h1,h2 puts single classes back)
bool
known_in(const char* id)
{
  if (no_exclude())
    return true;
  const char* e = std::getenv("VERIF_C05_INCLUDE");
  return e && std::strstr(e, id) != nullptr;
}

enum Kind
{
  VALUE_S = 0,
  GRAD_S = 1,
  GRADSENS_S = 2,
  SENS_S = 3,
  HESS_S = 4,
  AHESS_S = 5,
  VALUE_ALL = 6,
  GRAD_ALL = 7,
  SENS_ALL = 8,
  HESS_ALL = 9,
  AHESS_ALL = 10,
  NUM_KINDS = 11
};
const char* const kind_name[NUM_KINDS] = { "value(subset)",
                                           "subset gradient",
                                           "subset gradient+sensitivity",
                                           "subset sensitivity",
                                           "sub-Hessian x v",
                                           "approximate sub-Hessian x v",
                                           "value(all subsets)",
                                           "gradient(all subsets)",
                                           "total sensitivity",
                                           "Hessian x v (all subsets)",
                                           "approximate Hessian x v (all subsets)" };
inline int
base_kind(int k)
{
  switch (k)
    {
    case VALUE_ALL:
      return VALUE_S;
    case GRAD_ALL:
      return GRAD_S;
    case SENS_ALL:
      return SENS_S;
    case HESS_ALL:
      return HESS_S;
    case AHESS_ALL:
      return AHESS_S;
    default:
      return k;
    }
}
inline bool
is_hessian(int k)
{
  const int b = base_kind(k);
  return b == HESS_S || b == AHESS_S;
}

shared_ptr<ExamInfo>
pet_exam_info()
{
  shared_ptr<ExamInfo> e(new ExamInfo);
  e->imaging_modality = ImagingModality(ImagingModality::PT);
  return e;
}

// ------------------------------------------------------------------------------------------------
struct Thr
{
  bool active = false;    // a documented threshold (SMALL_NUM, max_quotient) changed a term
  bool ambiguous = false; // a term sits so close to a threshold that float/double rounding decides
};

struct Ctx
{
  // geometry
  shared_ptr<Scanner> sc;
  shared_ptr<ProjDataInfo> pdi;
  shared_ptr<VoxelsOnCartesianGrid<float>> proto;
  vp::MatrixOpts mopts;
  json msw; // symmetry/cache switches of the matrix under test
  vp::ExplicitP P, P0;
  bool have_P0 = false;
  // configuration
  int N = 1, ms = 0;
  int pass_ms = 0;   // the value handed to set_max_segment_num_to_process (ms, or literally -1 = "all segments of the data")
  json cfg;          // the (stage) configuration this context was built from
  bool zero_ends = false, use_subset_sens = true, tof = false, use_tofsens = false, tofsens_eff = false, additive = false;
  int norm_kind = 0;
  bool norm_is_tof = false;
  int prior_kind = 0;
  double beta = 0;
  double image_zero_frac = 0, add_zero_frac = 0; // fractions of exact zeros in the image / the additive term
  bool norm_wide = false;                        // the norm data have more segments than the emission data
  int data_mode = 0;                             // 0 model data, 1 all zero, 2 whole viewgrams zero, 3 one non-zero bin
  // data, per bin of P (values are exactly the floats handed to STIR)
  std::vector<double> y, a, n;
  std::vector<char> z;        // 1: bin zeroed by zero_seg0_end_planes
  std::vector<int> owner;     // subset that processes the bin, -1 if |segment| > max_segment_num_to_process
  std::vector<int> vgid;      // viewgram (tof, segment, view) of the bin
  int num_vg = 0;
  std::string unowned;                // a (segment, view) within max_segment_num_to_process that belongs to no subset
  bool sens_subsets_mismatch = false; // F5: the non-TOF sensitivity projector forms other subsets than the TOF projectors
  std::vector<double> n0; // per bin of P0 (non-TOF sensitivity)
  std::vector<char> z0;
  std::vector<int> owner0;
  std::vector<double> lam, v, out0, fl, fv; // images as vectors, forward projections P lam, P v
  shared_ptr<ProjDataInMemory> y_pd, a_pd, d1_pd, d2_pd;
  shared_ptr<Target> lam_im, v_im, out0_im;
  long nvox() const { return P.nvox(); }
};

shared_ptr<Target>
vec_to_image(const Ctx& c, const std::vector<double>& v)
{
  shared_ptr<Target> im(c.proto->get_empty_copy());
  const vp::ExplicitP& P = c.P;
  for (int z = P.imin[1]; z <= P.imax[1]; ++z)
    for (int y = P.imin[2]; y <= P.imax[2]; ++y)
      for (int x = P.imin[3]; x <= P.imax[3]; ++x)
        (*im)[z][y][x] = float(v[std::size_t(P.vox_index(z, y, x))]);
  im->set_exam_info(*pet_exam_info());
  return im;
}

// documented behaviour of divide_and_truncate (recon_array_functions.cxx:172-266):
//   numerator <= max(numerator viewgram)*SMALL_NUM  -> 0
//   numerator > max_quotient*denominator            -> max_quotient (=1e4)
inline double
div_trunc(const double num, const double denom, const double small, Thr& t)
{
  if (num != 0 && small > 0 && num >= 0.5 * small && num <= 2 * small)
    t.ambiguous = true;
  if (num <= small)
    {
      if (num != 0)
        t.active = true;
      return 0.;
    }
  if (std::fabs(num - 1e4 * denom) <= 1e-3 * num)
    t.ambiguous = true;
  if (num > 1e4 * denom)
    {
      t.active = true;
      return 1e4;
    }
  return num / denom;
}

// per-viewgram maxima of a bin vector
std::vector<double>
vg_max(const Ctx& c, const std::vector<double>& x)
{
  std::vector<double> m(std::size_t(c.num_vg), -1e300);
  for (std::size_t b = 0; b < x.size(); ++b)
    m[std::size_t(c.vgid[b])] = std::max(m[std::size_t(c.vgid[b])], x[b]);
  return m;
}
inline double
small_of(const double vmax)
{
  return std::max(vmax * 1e-6, 0.);
}

inline bool
in_subset(const int owner, const int S)
{
  return owner >= 0 && (S < 0 || owner == S);
}

// value: sum_b y log(ybar) - ybar with the documented clamping of accumulate_loglikelihood
double
ref_value(const Ctx& c, const int S, Thr& t, double& scale)
{
  std::vector<double> yz(c.y.size());
  for (std::size_t b = 0; b < yz.size(); ++b)
    yz[b] = c.z[b] ? 0. : c.y[b];
  const std::vector<double> ymax = vg_max(c, yz);
  double acc = 0;
  scale = 0;
  for (std::size_t b = 0; b < yz.size(); ++b)
    {
      if (!in_subset(c.owner[b], S))
        continue;
      const double small = small_of(ymax[std::size_t(c.vgid[b])]);
      const double ybar = c.z[b] ? 0. : c.n[b] * (c.fl[b] + c.a[b]);
      const double yy = yz[b];
      if (yy > 0)
        { // accumulate_loglikelihood: new_estimate = max(estimate, data/max_quotient)
          if (std::fabs(yy - 1e4 * ybar) <= 1e-3 * yy)
            t.ambiguous = true;
          if (yy > 1e4 * ybar)
            t.active = true;
        }
      const double ne = std::max(ybar, yy / 1e4);
      if (yy != 0 && small > 0 && yy >= 0.5 * small && yy <= 2 * small)
        t.ambiguous = true;
      if (yy <= small)
        {
          if (yy != 0)
            t.active = true;
          acc += -ne;
          scale += ne;
        }
      else
        {
          acc += yy * std::log(ne) - ne;
          scale += std::fabs(yy * std::log(ne)) + ne;
        }
    }
  return acc;
}

// gradient (plus_sens=false: P^T(y/(P lam + a) - n), plus_sens=true: P^T(y/(P lam + a)))
std::vector<double>
ref_grad(const Ctx& c, const int S, const bool plus_sens, Thr& t, std::vector<double>& scale)
{
  std::vector<double> yz(c.y.size());
  for (std::size_t b = 0; b < yz.size(); ++b)
    yz[b] = c.z[b] ? 0. : c.y[b];
  const std::vector<double> ymax = vg_max(c, yz);
  std::vector<double> w(yz.size(), 0.), wabs(yz.size(), 0.);
  std::vector<char> mask(yz.size(), 0);
  for (std::size_t b = 0; b < yz.size(); ++b)
    {
      if (!in_subset(c.owner[b], S))
        continue;
      mask[b] = 1;
      const double denom = c.fl[b] + (c.z[b] ? 0. : c.a[b]);
      const double q = div_trunc(yz[b], denom, small_of(ymax[std::size_t(c.vgid[b])]), t);
      const double nn = c.z[b] ? 0. : c.n[b];
      w[b] = plus_sens ? q : q - nn;
      wabs[b] = plus_sens ? q : q + nn;
    }
  scale = c.P.back(wabs, &mask);
  return c.P.back(w, &mask);
}

// sensitivity of the data subset S (S<0: all): sum_{b in S} P_b^T n_b; for TOF data without TOF sensitivities the
// library defines it with the non-TOF matrix (class documentation, DESIGN section 10 item 2)
std::vector<double>
ref_sens_true_subset(const Ctx& c, const int S)
{
  const bool use0 = c.tof && !c.tofsens_eff;
  const vp::ExplicitP& P = use0 ? c.P0 : c.P;
  const std::vector<double>& n = use0 ? c.n0 : c.n;
  const std::vector<char>& z = use0 ? c.z0 : c.z;
  const std::vector<int>& owner = use0 ? c.owner0 : c.owner;
  std::vector<double> w(n.size(), 0.);
  std::vector<char> mask(n.size(), 0);
  for (std::size_t b = 0; b < n.size(); ++b)
    if (in_subset(owner[b], S))
      {
        mask[b] = 1;
        w[b] = z[b] ? 0. : n[b];
      }
  return P.back(w, &mask);
}
// what get_subset_sensitivity documents: the subset's own sensitivity, or total/num_subsets when
// use_subset_sensitivities is off (set_total_or_subset_sensitivities)
std::vector<double>
ref_sens(const Ctx& c, const int S)
{
  if (S < 0 || c.use_subset_sens)
    return ref_sens_true_subset(c, S);
  std::vector<double> s = ref_sens_true_subset(c, -1);
  for (double& x : s)
    x /= c.N;
  return s;
}

// H v = - sum_b P_b^T [ y_b (P v)_b / (P lam + a)_b^2 ]
std::vector<double>
ref_hess(const Ctx& c, const int S, const bool apply_zero_ends, Thr& t, std::vector<double>& scale)
{
  std::vector<double> num(c.y.size()), num_all(c.y.size());
  for (std::size_t b = 0; b < num.size(); ++b)
    {
      num_all[b] = c.y[b] * c.fv[b];
      num[b] = (apply_zero_ends && c.z[b]) ? 0. : num_all[b];
    }
  // the documented threshold "numerator <= 1e-6 x maximum of the numerator viewgram -> 0" is applied by
  // accumulate_sub_Hessian_times_input BEFORE the end planes of segment 0 are zeroed (divide_and_truncate, then
  // zero_end_sinograms): the maximum is the one of the whole viewgram, end planes included
  const std::vector<double> nmax = vg_max(c, num_all);
  std::vector<double> w(num.size(), 0.), wabs(num.size(), 0.);
  std::vector<char> mask(num.size(), 0);
  for (std::size_t b = 0; b < num.size(); ++b)
    {
      if (!in_subset(c.owner[b], S))
        continue;
      mask[b] = 1;
      const double d = c.fl[b] + ((apply_zero_ends && c.z[b]) ? 0. : c.a[b]);
      const double q = div_trunc(num[b], d * d, small_of(nmax[std::size_t(c.vgid[b])]), t);
      w[b] = -q;
      wabs[b] = q;
    }
  scale = c.P.back(wabs, &mask);
  return c.P.back(w, &mask);
}

// approximate Hessian: - sum_b P_b^T [ n_b^2 (P v)_b / y_b ]   (quotient capped at 1e4 as documented)
std::vector<double>
ref_ahess(const Ctx& c, const int S, const bool apply_zero_ends, Thr& t, std::vector<double>& scale)
{
  const std::vector<double> nmax = vg_max(c, c.fv);
  std::vector<double> w(c.y.size(), 0.), wabs(c.y.size(), 0.);
  std::vector<char> mask(c.y.size(), 0);
  for (std::size_t b = 0; b < c.y.size(); ++b)
    {
      if (!in_subset(c.owner[b], S))
        continue;
      mask[b] = 1;
      if (apply_zero_ends && c.z[b])
        continue;
      const double denom = c.y[b] / (c.n[b] * c.n[b]);
      const double q = div_trunc(c.fv[b], denom, small_of(nmax[std::size_t(c.vgid[b])]), t);
      w[b] = -q;
      wabs[b] = q;
    }
  scale = c.P.back(wabs, &mask);
  return c.P.back(w, &mask);
}

inline double
vmax_abs(const std::vector<double>& v)
{
  double m = 0;
  for (double x : v)
    m = std::max(m, std::fabs(x));
  return m;
}
inline double
max_abs_diff(const std::vector<double>& a, const std::vector<double>& b)
{
  double m = 0;
  for (std::size_t i = 0; i < a.size(); ++i)
    {
      const double d = std::fabs(a[i] - b[i]);
      if (!(d <= m)) // also catches NaN
        m = d == d ? d : 1e300;
    }
  return m;
}
inline std::size_t
argmax_abs_diff(const std::vector<double>& a, const std::vector<double>& b)
{
  std::size_t k = 0;
  double m = -1;
  for (std::size_t i = 0; i < a.size(); ++i)
    if (!(std::fabs(a[i] - b[i]) <= m))
      {
        m = std::fabs(a[i] - b[i]);
        k = i;
      }
  return k;
}

// ------------------------------------------------------------------------------------------------
// building the context from the Case

// unique temp directory for sensitivity files
std::string
tmp_dir()
{
  const char* base = std::getenv("VERIF_TMP");
  std::string d = base ? std::string(base) : std::string("/tmp");
  d += "/verif_c05_" + std::to_string(getpid());
  mkdir(d.c_str(), 0777);
  return d;
}
void
remove_dir(const std::string& d)
{
  if (DIR* dir = opendir(d.c_str()))
    {
      while (dirent* e = readdir(dir))
        if (std::strcmp(e->d_name, ".") && std::strcmp(e->d_name, ".."))
          unlink((d + "/" + e->d_name).c_str());
      closedir(dir);
    }
  rmdir(d.c_str());
}

shared_ptr<ProjMatrixByBin>
matrix_under_test(const Ctx& c)
{
  const json& m = c.msw;
  return vp::make_matrix(c.mopts, m["s90"], m["s180"], m["swap_seg"], m["swap_s"], m["shift_z"], m["cache"], m["only_basic"]);
}

// The explicit P of the reference: rows from a FRESH matrix object with caching disabled and the same symmetry
// switches as the matrix the projectors under test use.  (Rows computed with and without symmetries are not
// always equal -- that is C03's subject, see work/notes/C05_findings.md "C03 lead" -- and C05 is about what the
// likelihood does with the matrix its projectors use.)
vp::ExplicitP
build_P(const Ctx& c, const shared_ptr<const ProjDataInfo>& pdi, const shared_ptr<const VoxelsOnCartesianGrid<float>>& image)
{
  vp::ExplicitP P;
  P.pdi = pdi;
  P.image = image;
  image->get_regular_range(P.imin, P.imax);
  P.nz = P.imax[1] - P.imin[1] + 1;
  P.ny = P.imax[2] - P.imin[2] + 1;
  P.nx = P.imax[3] - P.imin[3] + 1;
  const json& m = c.msw;
  shared_ptr<ProjMatrixByBinUsingRayTracing> mat
      = vp::make_matrix(c.mopts, m["s90"], m["s180"], m["swap_seg"], m["swap_s"], m["shift_z"], false, false);
  mat->set_up(pdi, image);
  vp::ExplicitP::enumerate_bins(*pdi, P.bins);
  P.rows.resize(P.bins.size());
  ProjMatrixElemsForOneBin row;
  for (std::size_t i = 0; i < P.bins.size(); ++i)
    {
      mat->get_proj_matrix_elems_for_one_bin(row, P.bins[i]);
      P.rows[i] = vp::ExplicitP::clip_row(P, row, &P.num_clipped);
    }
  return P;
}

// float-rounded random vector
std::vector<double>
rand_vec(std::size_t n, uint64_t seed, double lo, double hi, double p_zero = 0.)
{
  vf::SplitMix g(seed);
  std::vector<double> v(n);
  for (double& x : v)
    {
      const double u = g.unit();
      const double r = g.real(lo, hi);
      x = (u < p_zero) ? 0. : double(float(r));
    }
  return v;
}

// Which views does the library's non-TOF sensitivity back projector (a clone set up with the non-TOF ProjDataInfo,
// hence with its view/segment symmetries switched on again) put into each subset, compared with the TOF projectors?
bool
nontof_sens_subsets_differ(const shared_ptr<ProjDataInfo>& pdi, const shared_ptr<VoxelsOnCartesianGrid<float>>& image, const json& m,
                           const vp::MatrixOpts& mopts, const int ms, const int N)
{
  auto owners = [&](const shared_ptr<ProjDataInfo>& p) {
    ProjectorByBinPairUsingProjMatrixByBin pair(
        vp::make_matrix(mopts, m["s90"], m["s180"], m["swap_seg"], m["swap_s"], m["shift_z"], false, false));
    if (pair.set_up(p, image) != Succeeded::yes)
      error("projector pair set_up failed");
    const DataSymmetriesForViewSegmentNumbers& sym = *pair.get_symmetries_used();
    std::map<std::pair<int, int>, int> o;
    std::vector<ViewSegmentNumbers> rel;
    for (int S = 0; S < N; ++S)
      for (const ViewSegmentNumbers& vs : detail::find_basic_vs_nums_in_subset(*p, sym, -ms, ms, S, N))
        {
          sym.get_related_view_segment_numbers(rel, vs);
          for (const ViewSegmentNumbers& r : rel)
            o[std::make_pair(r.segment_num(), r.view_num())] = S;
        }
    return o;
  };
  shared_ptr<ProjDataInfo> pdi0 = pdi->create_non_tof_clone();
  return owners(pdi) != owners(pdi0);
}

// do two configurations have the same explicit matrix? (geometry, ray-tracing options and symmetry switches; the cache
// switches do not change the rows)
bool
same_matrix_cfg(const json& a, const json& b)
{
  if (a["scanner"] != b["scanner"] || a["pdi"] != b["pdi"] || a["image"] != b["image"])
    return false;
  for (const char* k : { "num_tangential_LORs", "restrict_to_cylindrical_FOV", "s90", "s180", "swap_seg", "swap_s", "shift_z" })
    if (a["matrix"][k] != b["matrix"][k])
      return false;
  return true;
}

// donor: a context whose explicit matrices may be re-used when the geometry is the same (histories)
// sticky_tofsens: an earlier set_up of the SAME object found TOF-only normalisation data and switched the object's
// "use time-of-flight sensitivities" on (set_up_before_sensitivity, info "Detected TOF normalisation data, so using
// time-of-flight sensitivities"); the switch is a member of the object and stays on
void
build_ctx(const json& c, Ctx& x, const Ctx* donor = nullptr, const bool sticky_tofsens = false)
{
  x.cfg = c;
  x.sc = vg::make_scanner(c["scanner"]);
  if (x.sc->check_consistency() != Succeeded::yes)
    error("scanner inconsistent");
  x.pdi = vg::make_pdi(x.sc, c["pdi"]);
  x.proto = vg::make_image(c["image"], *x.pdi, 7);
  x.proto->set_exam_info(*pet_exam_info());
  x.mopts.num_tangential_LORs = c["matrix"]["num_tangential_LORs"];
  x.mopts.restrict_to_cylindrical_FOV = c["matrix"]["restrict_to_cylindrical_FOV"];
  x.msw = c["matrix"];
  x.tof = x.pdi->is_tof_data();
  x.N = c["num_subsets"];
  const int max_seg = c["max_seg"];
  // set_up_before_sensitivity: "max_segment_num_to_process (%d) is too large" -> stay within the data
  x.ms = (max_seg < 0) ? x.pdi->get_max_segment_num() : std::min(max_seg, x.pdi->get_max_segment_num());
  x.zero_ends = c["zero_ends"];
  x.use_subset_sens = c["use_subset_sens"];
  x.use_tofsens = c["use_tofsens"];
  x.additive = c["additive"];
  x.norm_kind = c["norm"];
  x.norm_is_tof = x.tof && c["norm_tof"].get<bool>() && x.norm_kind > 0;
  // set_up_before_sensitivity: a TOF-only norm switches use_tofsens on (documented by its info() message)
  x.tofsens_eff = x.use_tofsens || x.norm_is_tof || (sticky_tofsens && x.tof);
  // "convention: if -1, use get_max_segment_num()" (PoissonLogLikelihoodWithLinearModelForMeanAndProjData.h): cases with
  // "ms_literal" hand the -1 to the setter instead of the resolved number
  x.pass_ms = (max_seg < 0 && c.value("ms_literal", false)) ? -1 : x.ms;
  x.prior_kind = c["prior"];
  x.beta = c["beta"];

  shared_ptr<const ProjDataInfo> pdi_c = x.pdi;
  shared_ptr<const VoxelsOnCartesianGrid<float>> im_c = x.proto;
  const bool reuse = donor && same_matrix_cfg(c, donor->cfg);
  x.P = reuse ? donor->P : build_P(x, pdi_c, im_c);
  const std::size_t nb = std::size_t(x.P.nbins());
  x.have_P0 = x.tof && !x.tofsens_eff;
  if (x.have_P0)
    {
      if (reuse && donor->have_P0)
        x.P0 = donor->P0;
      else
        {
          shared_ptr<const ProjDataInfo> pdi0 = x.pdi->create_non_tof_clone();
          x.P0 = build_P(x, pdi0, im_c);
        }
    }

  // --- subset membership: documented as "determined as per detail::find_basic_vs_nums_in_subset()" with the
  //     symmetries of the projectors in use (ForwardProjectorByBin.h:86); C06 decides that function
  std::map<std::pair<int, int>, int> owner_vs;
  {
    ProjectorByBinPairUsingProjMatrixByBin pair(matrix_under_test(x));
    if (pair.set_up(x.pdi, x.proto) != Succeeded::yes)
      error("projector pair set_up failed");
    const DataSymmetriesForViewSegmentNumbers& sym = *pair.get_symmetries_used();
    std::vector<ViewSegmentNumbers> rel;
    for (int S = 0; S < x.N; ++S)
      for (const ViewSegmentNumbers& vs : detail::find_basic_vs_nums_in_subset(*x.pdi, sym, -x.ms, x.ms, S, x.N))
        {
          sym.get_related_view_segment_numbers(rel, vs);
          for (const ViewSegmentNumbers& r : rel)
            owner_vs[std::make_pair(r.segment_num(), r.view_num())] = S;
        }
  }
  if (x.have_P0 && x.N > 1)
    x.sens_subsets_mismatch = nontof_sens_subsets_differ(x.pdi, x.proto, x.msw, x.mopts, x.ms, x.N);
  auto fill_geom = [&](const vp::ExplicitP& P, std::vector<char>& z, std::vector<int>& owner) {
    z.assign(std::size_t(P.nbins()), 0);
    owner.assign(std::size_t(P.nbins()), -1);
    for (std::size_t b = 0; b < z.size(); ++b)
      {
        const Bin& bin = P.bins[b];
        if (x.zero_ends && bin.segment_num() == 0
            && (bin.axial_pos_num() == P.pdi->get_min_axial_pos_num(0) || bin.axial_pos_num() == P.pdi->get_max_axial_pos_num(0)))
          z[b] = 1;
        auto it = owner_vs.find(std::make_pair(bin.segment_num(), bin.view_num()));
        if (std::abs(bin.segment_num()) <= x.ms)
          {
            if (it == owner_vs.end())
              { // a view/segment inside the processed range that no subset contains: reported as a failure by check()
                x.unowned = cat("segment ", bin.segment_num(), " view ", bin.view_num());
                continue;
              }
            owner[b] = it->second;
          }
      }
  };
  fill_geom(x.P, x.z, x.owner);
  if (x.have_P0)
    fill_geom(x.P0, x.z0, x.owner0);
  // viewgram ids
  {
    std::map<std::tuple<int, int, int>, int> ids;
    x.vgid.resize(nb);
    for (std::size_t b = 0; b < nb; ++b)
      {
        const Bin& bin = x.P.bins[b];
        auto key = std::make_tuple(bin.timing_pos_num(), bin.segment_num(), bin.view_num());
        auto it = ids.find(key);
        if (it == ids.end())
          it = ids.insert(std::make_pair(key, int(ids.size()))).first;
        x.vgid[b] = it->second;
      }
    x.num_vg = int(ids.size());
  }

  // --- images
  const std::size_t nv = std::size_t(x.nvox());
  // "any non-negative image": a fraction of the voxels (also all of them) is EXACTLY 0 ("image_zero_frac", default 0:
  // the strictly positive images of the saved cases; rand_vec draws the same numbers for the other voxels)
  x.image_zero_frac = c.value("image_zero_frac", 0.);
  x.lam = rand_vec(nv, c["image_seed"].get<uint64_t>(), 0.1, 3., x.image_zero_frac);
  x.v = rand_vec(nv, c["dir_seed"].get<uint64_t>(), 0.05, 2., c["dir_zero_frac"].get<double>());
  x.out0 = rand_vec(nv, c["dir_seed"].get<uint64_t>() ^ 0x5555, -1., 1.);
  x.lam_im = vec_to_image(x, x.lam);
  x.v_im = vec_to_image(x, x.v);
  x.out0_im = vec_to_image(x, x.out0);
  x.fl = x.P.forward(x.lam);
  x.fv = x.P.forward(x.v);

  // --- normalisation data d (apply multiplies by d, undo divides: efficiency n = 1/d), additive term
  shared_ptr<const ExamInfo> exam = pet_exam_info();
  x.n.assign(nb, 1.);
  // BinNormalisationFromProjData::set_up accepts norm data that are "larger" than the emission data ("Check if the emission
  // data is 'smaller' than the norm data (e.g. fewer segments)": same tangential and axial ranges, more segments).
  // "norm_wide" (default false): when the emission data had their segment range trimmed, the norm data keep ALL segments.
  shared_ptr<ProjDataInfo> wide_pdi;
  if (c.value("norm_wide", false) && x.norm_kind > 0 && c["pdi"]["trim"].contains("max_seg"))
    {
      json jw = c["pdi"];
      jw["trim"]["max_seg"] = 99;
      jw["trim"].erase("min_seg");
      shared_ptr<ProjDataInfo> w = vg::make_pdi(x.sc, jw);
      if (w->get_max_segment_num() > x.pdi->get_max_segment_num() || w->get_min_segment_num() < x.pdi->get_min_segment_num())
        {
          wide_pdi = (x.norm_is_tof || !x.tof) ? w : w->create_non_tof_clone();
          x.norm_wide = true;
        }
    }
  auto make_norm_data = [&](uint64_t seed, double lo, double hi, shared_ptr<ProjDataInMemory>& pd) {
    if (wide_pdi)
      {
        const bool norm_tof = wide_pdi->is_tof_data();
        pd.reset(new ProjDataInMemory(exam, wide_pdi, false));
        vp::ExplicitP Q; // only used for its bin enumeration / conversion helpers
        Q.pdi = wide_pdi;
        vp::ExplicitP::enumerate_bins(*wide_pdi, Q.bins);
        const std::vector<double> d = rand_vec(Q.bins.size(), seed, lo, hi);
        Q.vec_to_projdata(*pd, d);
        for (std::size_t b = 0; b < nb; ++b)
          {
            Bin nb0 = x.P.bins[b];
            if (!norm_tof)
              nb0.timing_pos_num() = 0;
            x.n[b] *= double(1.F / float(d[std::size_t(Q.bin_index(nb0))]));
          }
      }
    else if (x.norm_is_tof || !x.tof)
      {
        const std::vector<double> d = rand_vec(nb, seed, lo, hi);
        pd.reset(new ProjDataInMemory(exam, x.pdi, false));
        x.P.vec_to_projdata(*pd, d);
        for (std::size_t b = 0; b < nb; ++b)
          x.n[b] *= double(1.F / float(d[b]));
      }
    else
      { // non-TOF norm data for TOF emission data: the same factor for every TOF bin (BinNormalisationFromProjData.cxx:87-91)
        shared_ptr<ProjDataInfo> pdi0 = x.pdi->create_non_tof_clone();
        pd.reset(new ProjDataInMemory(exam, pdi0, false));
        vp::ExplicitP Q; // only used for its bin enumeration / conversion helpers
        Q.pdi = pdi0;
        vp::ExplicitP::enumerate_bins(*pdi0, Q.bins);
        const std::vector<double> d = rand_vec(Q.bins.size(), seed, lo, hi);
        Q.vec_to_projdata(*pd, d);
        for (std::size_t b = 0; b < nb; ++b)
          {
            Bin nb0 = x.P.bins[b];
            nb0.timing_pos_num() = 0;
            x.n[b] *= double(1.F / float(d[std::size_t(Q.bin_index(nb0))]));
          }
      }
  };
  if (x.norm_kind == 1)
    make_norm_data(c["norm_seed"].get<uint64_t>(), 0.25, 4., x.d1_pd);
  else if (x.norm_kind == 2)
    {
      make_norm_data(c["norm_seed"].get<uint64_t>(), 0.5, 2., x.d1_pd);
      make_norm_data(c["norm_seed"].get<uint64_t>() ^ 0xabcdef, 0.5, 2., x.d2_pd);
    }
  if (x.norm_kind == 2)
    { // undo() of the chain divides twice in float: recompute n as the library does (1/d1)/d2 up to rounding -- the
      // double product above is within 2 ulp(float) of it, far below the tolerance
    }
  if (x.have_P0)
    {
      x.n0.assign(std::size_t(x.P0.nbins()), 1.);
      for (std::size_t b0 = 0; b0 < x.n0.size(); ++b0)
        {
          Bin bt = x.P0.bins[b0]; // TOF bin 0 of the same (segment, view, axial, tangential): non-TOF norm is TOF independent
          bt.timing_pos_num() = 0;
          x.n0[b0] = x.n[std::size_t(x.P.bin_index(bt))];
        }
    }
  x.a.assign(nb, 0.);
  if (x.additive)
    {
      // "any ... additive term" (non-negative): a fraction of its bins (also all of them: an additive term that is
      // present but zero) is EXACTLY 0 ("add_zero_frac", default 0)
      x.add_zero_frac = c.value("add_zero_frac", 0.);
      x.a = rand_vec(nb, c["add_seed"].get<uint64_t>(), 0.1 * c["add_scale"].get<double>(), 2. * c["add_scale"].get<double>(), x.add_zero_frac);
      x.a_pd.reset(new ProjDataInMemory(exam, x.pdi, false));
      x.P.vec_to_projdata(*x.a_pd, x.a);
    }
  // --- data from the model: y = round(ybar*u), u in [0.5,1.5]  => y in {0} U [1,..), y/ybar <= 3, y = 0 where ybar = 0
  {
    vf::SplitMix g(c["data_seed"].get<uint64_t>());
    x.y.assign(nb, 0.);
    const bool thr_class = c["threshold_class"];
    for (std::size_t b = 0; b < nb; ++b)
      {
        const double ybar = x.n[b] * (x.fl[b] + x.a[b]);
        const double u = g.real(0.5, 1.5);
        const double r = g.unit();
        double yy = std::floor(ybar * u + 0.5);
        if (thr_class)
          { // labelled class: data that sit ON the documented thresholds
            if (r < 0.03)
              yy = 5.e4; // quotient capped at max_quotient wherever the model mean is small
            else if (r < 0.06)
              yy = 1e-4; // below SMALL_NUM * max of a viewgram with counts >= 100
            else if (r < 0.08)
              yy = std::floor(ybar * 3e4) + 7.; // large quotient
          }
        x.y[b] = double(float(std::min(yy, 1e5)));
      }
    // "any ... measured data": degenerate data ("data_mode", default 0 = the data of the model everywhere).
    //   1: all bins 0;  2: about half of the viewgrams (TOF bin, segment, view) entirely 0 (divide_and_truncate and
    //   accumulate_loglikelihood take their "small value" from the maximum of each viewgram: here it is 0);
    //   3: exactly one non-zero bin.  The kept values are those of the model, so the documented thresholds are not hit
    //   unintentionally (y/ybar <= 3 as before).
    x.data_mode = c.value("data_mode", 0);
    if (x.data_mode == 1)
      std::fill(x.y.begin(), x.y.end(), 0.);
    else if (x.data_mode == 2)
      {
        vf::SplitMix gm(c["data_seed"].get<uint64_t>() ^ 0x5eed0d47aULL);
        std::vector<char> keep(std::size_t(x.num_vg), 0);
        for (char& k : keep)
          k = gm.unit() < 0.5 ? 1 : 0;
        for (std::size_t b = 0; b < nb; ++b)
          if (!keep[std::size_t(x.vgid[b])])
            x.y[b] = 0.;
      }
    else if (x.data_mode == 3)
      {
        vf::SplitMix gm(c["data_seed"].get<uint64_t>() ^ 0x5eed0d47aULL);
        const std::size_t start = std::size_t(gm.unit() * double(nb)) % std::max<std::size_t>(nb, 1);
        std::size_t keep = nb;
        for (std::size_t k = 0; k < nb && keep == nb; ++k)
          if (x.y[(start + k) % nb] > 0)
            keep = (start + k) % nb;
        for (std::size_t b = 0; b < nb; ++b)
          if (b != keep)
            x.y[b] = 0.;
      }
    x.y_pd.reset(new ProjDataInMemory(exam, x.pdi, false));
    x.P.vec_to_projdata(*x.y_pd, x.y);
  }
}

// ------------------------------------------------------------------------------------------------
// the object under test, allocated in memory pre-filled with a byte pattern: members that the constructor does
// not initialise then have a defined (chosen) content instead of whatever the heap held
struct Holder
{
  void* mem = nullptr;
  Obj* o = nullptr;
  Holder() {}
  Holder(const Holder&) = delete;
  void make(int fill)
  {
    mem = std::aligned_alloc(alignof(Obj) < 16 ? 16 : alignof(Obj), (sizeof(Obj) + 63) / 64 * 64);
    std::memset(mem, fill, sizeof(Obj));
    o = new (mem) Obj();
  }
  ~Holder()
  {
    if (o)
      o->~Obj();
    std::free(mem);
  }
};

shared_ptr<BinNormalisation>
make_norm(const Ctx& x)
{
  if (x.norm_kind == 1)
    return shared_ptr<BinNormalisation>(new BinNormalisationFromProjData(x.d1_pd));
  if (x.norm_kind == 2)
    {
      shared_ptr<BinNormalisation> n1(new BinNormalisationFromProjData(x.d1_pd));
      shared_ptr<BinNormalisation> n2(new BinNormalisationFromProjData(x.d2_pd));
      return shared_ptr<BinNormalisation>(new ChainedBinNormalisation(n1, n2));
    }
  return shared_ptr<BinNormalisation>();
}

// configure a fresh object. sens_mode: 0 computed by set_up, 1 written to files by this object (still computed),
// 2 read from the files written before (recompute_sensitivity=false); dir = file name prefix (".../" or ".../s2_")
// tofsens: value of the parsed key "use time-of-flight sensitivities"
void
configure(Obj& o, const Ctx& x, const int N, const int sens_mode, const std::string& dir, const bool tofsens)
{
  if (tofsens)
    {
      // "use time-of-flight sensitivities" has no setter: parse it, as a user would
      std::istringstream s("PoissonLogLikelihoodWithLinearModelForMeanAndProjData Parameters:=\n"
                           "use time-of-flight sensitivities := 1\n"
                           "End PoissonLogLikelihoodWithLinearModelForMeanAndProjData Parameters:=\n");
      if (!o.parse(s))
        error("parsing of use_tofsens failed");
    }
  o.set_proj_data_sptr(x.y_pd);
  o.set_projector_pair_sptr(shared_ptr<ProjectorByBinPair>(new ProjectorByBinPairUsingProjMatrixByBin(matrix_under_test(x))));
  if (x.additive)
    o.set_additive_proj_data_sptr(x.a_pd);
  if (x.norm_kind > 0)
    o.set_normalisation_sptr(make_norm(x));
  o.set_zero_seg0_end_planes(x.zero_ends);
  o.set_max_segment_num_to_process(x.pass_ms);
  o.set_use_subset_sensitivities(x.use_subset_sens);
  o.set_num_subsets(N);
  if (x.prior_kind == 1)
    o.set_prior_sptr(shared_ptr<GeneralisedPrior<Target>>(new QuadraticPrior<float>(false, float(x.beta))));
  if (sens_mode > 0)
    {
      if (x.use_subset_sens)
        o.set_subsensitivity_filenames(dir + "subsens_%d.hv");
      else
        o.set_sensitivity_filename(dir + "sens.hv");
      o.set_recompute_sensitivity(sens_mode == 1);
    }
}

struct Rec
{
  bool is_scalar = false;
  double s = 0;
  std::vector<double> im;
  double scale = 0; // magnitude used for the relative comparisons
};
typedef std::map<std::pair<int, int>, Rec> Results;

struct RefCache
{
  std::map<std::pair<int, int>, Rec> ref;
  std::map<std::pair<int, int>, Thr> thr;
};

// run one request on the object, compare with the reference; S = -1 for the all-subsets forms
Result
run_op(Obj& o, const Ctx& x, RefCache& rc, const int kind, const int S, Results& res, const std::string& who)
{
  const std::pair<int, int> key(kind, S);
  const vp::ExplicitP& P = x.P;
  const int bk = base_kind(kind);
  const bool all = kind >= VALUE_ALL;
  Rec got;
  // ---- reference (cached per request)
  if (!rc.ref.count(key))
    {
      Rec r;
      Thr t;
      std::vector<double> sc;
      switch (bk)
        {
        case VALUE_S:
          r.is_scalar = true;
          r.s = ref_value(x, S, t, r.scale);
          break;
        case GRAD_S:
          r.im = ref_grad(x, S, false, t, sc);
          r.scale = vmax_abs(sc);
          break;
        case GRADSENS_S:
          r.im = ref_grad(x, S, true, t, sc);
          r.scale = vmax_abs(sc);
          break;
        case SENS_S:
          r.im = ref_sens(x, S);
          r.scale = vmax_abs(r.im);
          break;
        case HESS_S:
          r.im = ref_hess(x, S, true, t, sc);
          r.scale = vmax_abs(sc);
          break;
        case AHESS_S:
          r.im = ref_ahess(x, S, true, t, sc);
          r.scale = vmax_abs(sc);
          break;
        }
      if (is_hessian(kind))
        { // these functions ADD to the output: the expected result is out0 + H v
          for (std::size_t i = 0; i < r.im.size(); ++i)
            r.im[i] += x.out0[i];
          r.scale += 1.;
        }
      rc.ref[key] = r;
      rc.thr[key] = t;
    }
  const Rec& ref = rc.ref[key];
  const Thr& thr = rc.thr[key];

  // ---- the library
  shared_ptr<Target> im(x.proto->get_empty_copy());
  im->set_exam_info(*pet_exam_info());
  const bool has_prior = x.prior_kind != 0;
  Rec pen; // penalised form, when a prior is present
  bool have_pen = false;
  switch (kind)
    {
    case VALUE_S:
      got.is_scalar = true;
      got.s = o.compute_objective_function_without_penalty(*x.lam_im, S);
      if (has_prior)
        {
          pen.s = o.compute_objective_function(*x.lam_im, S);
          have_pen = true;
        }
      break;
    case VALUE_ALL:
      got.is_scalar = true;
      got.s = o.compute_objective_function_without_penalty(*x.lam_im);
      if (has_prior)
        {
          pen.s = o.compute_objective_function(*x.lam_im);
          have_pen = true;
        }
      break;
    case GRAD_S:
      im->fill(123.F); // "any data in gradient will be overwritten"
      o.compute_sub_gradient_without_penalty(*im, *x.lam_im, S);
      got.im = P.image_to_vec(*im);
      if (has_prior)
        {
          o.compute_sub_gradient(*im, *x.lam_im, S);
          pen.im = P.image_to_vec(*im);
          have_pen = true;
        }
      break;
    case GRAD_ALL:
      im->fill(123.F);
      o.compute_gradient_without_penalty(*im, *x.lam_im);
      got.im = P.image_to_vec(*im);
      if (has_prior)
        {
          o.compute_gradient(*im, *x.lam_im);
          pen.im = P.image_to_vec(*im);
          have_pen = true;
        }
      break;
    case GRADSENS_S:
      im->fill(123.F);
      o.compute_sub_gradient_without_penalty_plus_sensitivity(*im, *x.lam_im, S);
      got.im = P.image_to_vec(*im);
      break;
    case SENS_S:
      got.im = P.image_to_vec(o.get_subset_sensitivity(S));
      break;
    case SENS_ALL:
      got.im = P.image_to_vec(o.get_sensitivity());
      break;
    case HESS_S:
    case HESS_ALL:
    case AHESS_S:
    case AHESS_ALL:
      {
        shared_ptr<Target> out(x.out0_im->clone());
        Succeeded ok = Succeeded::no;
        if (kind == HESS_S)
          ok = o.accumulate_sub_Hessian_times_input_without_penalty(*out, *x.lam_im, *x.v_im, S);
        else if (kind == HESS_ALL)
          ok = o.accumulate_Hessian_times_input_without_penalty(*out, *x.lam_im, *x.v_im);
        else if (kind == AHESS_S)
          ok = o.add_multiplication_with_approximate_sub_Hessian_without_penalty(*out, *x.v_im, S);
        else
          ok = o.add_multiplication_with_approximate_Hessian_without_penalty(*out, *x.v_im);
        VF_CHECK(ok == Succeeded::yes, who, ": ", kind_name[kind], " returned Succeeded::no");
        got.im = P.image_to_vec(*out);
        if (has_prior)
          {
            shared_ptr<Target> out2(x.out0_im->clone());
            if (kind == HESS_S)
              ok = o.accumulate_sub_Hessian_times_input(*out2, *x.lam_im, *x.v_im, S);
            else if (kind == HESS_ALL)
              ok = o.accumulate_Hessian_times_input(*out2, *x.lam_im, *x.v_im);
            else if (kind == AHESS_S)
              ok = o.add_multiplication_with_approximate_sub_Hessian(*out2, *x.v_im, S);
            else
              ok = o.add_multiplication_with_approximate_Hessian(*out2, *x.v_im);
            VF_CHECK(ok == Succeeded::yes, who, ": penalised ", kind_name[kind], " returned Succeeded::no");
            pen.im = P.image_to_vec(*out2);
            have_pen = true;
          }
      }
      break;
    }
  got.scale = ref.scale;

  // ---- compare with the reference
  const std::string tag = cat(who, ": ", kind_name[kind], (all ? "" : cat(" subset ", S, "/", x.N)));
  if (thr.ambiguous)
    stats().count("comparisons skipped: term within rounding of a documented threshold");
  else
    {
      if (thr.active)
        stats().count(cat("comparisons with active thresholds: ", kind_name[bk]));
      if (got.is_scalar)
        {
          const double err = std::fabs(got.s - ref.s) / std::max(ref.scale, 1e-30);
          stats().maxi(cat("rel err ", kind_name[bk]), ref.scale > 0 ? err : 0.);
          VF_CHECK(std::fabs(got.s - ref.s) <= TOL_REF * ref.scale + 1e-30, tag, " = ", got.s, " but the definition gives ", ref.s,
                   " (sum of |terms| ", ref.scale, ", rel err ", err, ")");
        }
      else
        {
          VF_CHECK(got.im.size() == ref.im.size(), tag, ": size mismatch");
          const double d = max_abs_diff(got.im, ref.im);
          const double err = d / std::max(ref.scale, 1e-30);
          stats().maxi(cat("rel err ", kind_name[bk]), ref.scale > 0 ? err : 0.);
          if (!(d <= TOL_REF * ref.scale + 1e-30))
            {
              const std::size_t k = argmax_abs_diff(got.im, ref.im);
              std::string hyp;
              if (x.tof && bk == HESS_S)
                { // triage aid for L5: does the result equal "every TOF bin is processed as TOF bin 0"?
                  Ctx h = x;
                  for (std::size_t b = 0; b < h.owner.size(); ++b)
                    if (h.P.bins[b].timing_pos_num() != 0)
                      h.owner[b] = -1;
                  Thr t2;
                  std::vector<double> sc2;
                  std::vector<double> hv = ref_hess(h, S, true, t2, sc2);
                  const int ntof = x.pdi->get_num_tof_poss();
                  for (std::size_t i = 0; i < hv.size(); ++i)
                    hv[i] = x.out0[i] + ntof * hv[i];
                  hyp = cat(" [hypothesis 'all ", ntof, " TOF bins processed as TOF bin 0' gives ", hv[k], " at that voxel, max |difference| ",
                            max_abs_diff(got.im, hv), "]");
                }
              return Result::fail(cat(tag, ": voxel ", k, " is ", got.im[k], " but the definition gives ", ref.im[k], " (max |difference| ", d,
                                      ", magnitude ", ref.scale, ", rel err ", err, ")", hyp));
            }
        }
    }
  // ---- penalised = unpenalised - prior share (prior numbers from the prior object itself; C09 decides those)
  if (have_pen)
    {
      GeneralisedPrior<Target>& prior = *o.get_prior_ptr();
      const double share = all ? 1. : 1. / x.N;
      if (got.is_scalar)
        {
          const double pv = prior.compute_value(*x.lam_im);
          const double want = got.s - share * pv;
          const double sc = std::fabs(got.s) + std::fabs(pv) + 1e-30;
          stats().maxi("rel err penalised value", std::fabs(pen.s - want) / sc);
          VF_CHECK(std::fabs(pen.s - want) <= TOL_PRIOR * sc, tag, ": penalised value ", pen.s, " != unpenalised ", got.s, " - ", share, " * prior value ", pv);
        }
      else
        {
          shared_ptr<Target> pim(x.proto->get_empty_copy());
          std::vector<double> pr;
          if (bk == GRAD_S)
            {
              prior.compute_gradient(*pim, *x.lam_im);
              pr = P.image_to_vec(*pim);
            }
          else if (bk == HESS_S)
            {
              pim->fill(0.F);
              prior.accumulate_Hessian_times_input(*pim, *x.lam_im, *x.v_im);
              pr = P.image_to_vec(*pim);
            }
          else
            {
              pim->fill(0.F);
              prior.add_multiplication_with_approximate_Hessian(*pim, *x.v_im);
              pr = P.image_to_vec(*pim);
            }
          std::vector<double> want(got.im.size());
          for (std::size_t i = 0; i < want.size(); ++i)
            want[i] = got.im[i] - share * pr[i];
          const double sc = vmax_abs(got.im) + share * vmax_abs(pr) + 1e-30;
          const double d = max_abs_diff(pen.im, want);
          stats().maxi(cat("rel err penalised ", kind_name[bk]), d / sc);
          if (!(d <= TOL_PRIOR * sc))
            {
              const std::size_t k = argmax_abs_diff(pen.im, want);
              std::string hyp;
              if (is_hessian(kind))
                { // triage aid for F4: is the prior's Hessian applied to the accumulated OUTPUT instead of the input?
                  shared_ptr<Target> gi = vec_to_image(x, got.im);
                  shared_ptr<Target> p2(x.proto->get_empty_copy());
                  p2->fill(0.F);
                  if (bk == HESS_S)
                    prior.accumulate_Hessian_times_input(*p2, *x.lam_im, *gi);
                  else
                    prior.add_multiplication_with_approximate_Hessian(*p2, *gi);
                  const std::vector<double> pr2 = P.image_to_vec(*p2);
                  std::vector<double> want2(got.im.size());
                  for (std::size_t i = 0; i < want2.size(); ++i)
                    want2[i] = got.im[i] - share * pr2[i];
                  hyp = cat(" [hypothesis 'prior Hessian applied to the unpenalised output instead of the input': max |difference| ",
                            max_abs_diff(pen.im, want2), "]");
                }
              return Result::fail(cat(tag, ": penalised form at voxel ", k, " is ", pen.im[k], " but unpenalised - ", share, " * prior share = ", got.im[k],
                                      " - ", share * pr[k], " = ", want[k], " (max |difference| ", d, ", magnitude ", sc, ")", hyp));
            }
        }
    }
  // ---- same request asked before on this object: same numbers
  auto it = res.find(key);
  if (it != res.end())
    {
      const double d = got.is_scalar ? std::fabs(got.s - it->second.s) : max_abs_diff(got.im, it->second.im);
      stats().maxi("rel diff repeated request", d / std::max(ref.scale, 1e-30));
      VF_CHECK(d <= TOL_SAME * ref.scale + 1e-30, tag, ": a repeated request returns different numbers (max |difference| ", d, ", magnitude ", ref.scale, ")");
    }
  else
    res[key] = got;
  stats().count(cat("requests: ", kind_name[kind]));
  return Result::pass();
}

struct OpList
{
  std::vector<std::pair<int, int>> ops; // (kind, subset or -1)
};

// Known finding (decided by the lead, work/notes/C05_findings.md): F5 subset sensitivities of TOF data with the non-TOF
// sensitivity projector use other views than the subset.
// Cases whose OWN request list contains such a request are skipped as a whole through known_signature(); the
// requests the harness adds itself (sum over subsets, all first-use orders) are skipped here.
// (F3, Hessian requests ignoring zero_seg0_end_planes, is repaired in /repo: replays/C05/fixed_hessian_zero_seg0_end_planes.json)
bool
excluded_op(const Ctx& x, const int kind)
{
  if (no_exclude())
    return false;
  if (kind == SENS_S && x.sens_subsets_mismatch && x.use_subset_sens)
    {
      stats().count("skipped harness-added request: subset sensitivity, known finding C05:tof:nontof-subset-sensitivity:view-symmetries");
      return true;
    }
  return false;
}

OpList
decode_ops(const json& ops, const Ctx& x)
{
  OpList l;
  for (const json& o : ops)
    {
      const int kind = int(((o[0].get<long>() % NUM_KINDS) + NUM_KINDS) % NUM_KINDS);
      const int S = kind >= VALUE_ALL ? -1 : int(((o[1].get<long>() % x.N) + x.N) % x.N);
      l.ops.push_back(std::make_pair(kind, S));
    }
  return l;
}

// the requests of a list on a set-up object, each compared with the reference of x, then the clause
// "(gradient + sensitivity) - gradient = subset sensitivity"
Result
run_requests(Obj& o, const Ctx& x, RefCache& rc, const OpList& l, Results& res, const std::string& who)
{
  for (const auto& op : l.ops)
    {
      if (excluded_op(x, op.first))
        continue;
      Result r = run_op(o, x, rc, op.first, op.second, res, who);
      if (r.failed())
        return r;
    }
  // (gradient + sensitivity) - gradient = subset sensitivity, for every subset where both were requested.
  // Asserted for non-TOF data and TOF data with TOF sensitivities only (DESIGN section 10 item 2), and against
  // get_subset_sensitivity only when that is the subset's own sensitivity (use_subset_sensitivities or one subset).
  if (!x.tof || x.tofsens_eff)
    for (int S = 0; S < x.N; ++S)
      {
        auto g = res.find(std::make_pair(int(GRAD_S), S)), gs = res.find(std::make_pair(int(GRADSENS_S), S));
        if (g == res.end() || gs == res.end())
          continue;
        std::vector<double> diff(g->second.im.size());
        for (std::size_t i = 0; i < diff.size(); ++i)
          diff[i] = gs->second.im[i] - g->second.im[i];
        const std::vector<double> want = ref_sens_true_subset(x, S);
        const double sc = std::max(g->second.scale, gs->second.scale);
        const double d = max_abs_diff(diff, want);
        stats().maxi("rel err (gradient+sensitivity) - gradient vs sensitivity", d / std::max(sc, 1e-30));
        VF_CHECK(d <= TOL_REF * sc + 1e-30, who, ": (gradient+sensitivity) - gradient differs from the sensitivity of subset ", S, " by ", d, " (magnitude ",
                 sc, ")");
        if (x.use_subset_sens || x.N == 1)
          {
            const std::vector<double> lib = x.P.image_to_vec(o.get_subset_sensitivity(S));
            const double d2 = max_abs_diff(diff, lib);
            VF_CHECK(d2 <= TOL_REF * sc + 1e-30, who, ": (gradient+sensitivity) - gradient differs from get_subset_sensitivity(", S, ") by ", d2,
                     " (magnitude ", sc, ")");
          }
        stats().count("checks: (gradient+sensitivity) - gradient = sensitivity");
      }
  return Result::pass();
}

// a fresh object: construct in pre-filled memory, configure, set_up.  A configuration that STIR rejects with error() /
// Succeeded::no sets 'rejected' (the exception is caught around configuration + set_up only)
void
make_fresh(Holder& h, const Ctx& x, const int mem_fill, const int sens_mode, const std::string& dir, const bool tofsens, bool& rejected,
           std::string& reject_msg)
{
  h.make(mem_fill);
  Obj& o = *h.o;
  rejected = false;
  shared_ptr<Target> target(x.proto->get_empty_copy());
  target->set_exam_info(*pet_exam_info());
  try
    {
      configure(o, x, x.N, sens_mode, dir, tofsens);
      if (o.set_up(target) != Succeeded::yes)
        {
          rejected = true;
          reject_msg = "objective function set_up returned no";
        }
    }
  catch (const stir_verif::AssertionFailure&)
    {
      throw;
    }
  catch (const std::exception& e)
    {
      rejected = true;
      reject_msg = std::string("objective function set_up: ") + e.what();
    }
}

Result
run_sequence(const Ctx& x, RefCache& rc, const OpList& l, const int mem_fill, const int sens_mode, const std::string& dir, Results& res,
             const std::string& who, bool& rejected, std::string& reject_msg, const int tofsens = -1)
{
  Holder h;
  make_fresh(h, x, mem_fill, sens_mode, dir, tofsens < 0 ? x.use_tofsens : tofsens != 0, rejected, reject_msg);
  if (rejected)
    return Result::pass();
  return run_requests(*h.o, x, rc, l, res, who);
}

Result
compare_results(const Results& A, const Results& B, const std::string& what)
{
  for (const auto& kv : A)
    {
      auto it = B.find(kv.first);
      if (it == B.end())
        continue;
      const double d = kv.second.is_scalar ? std::fabs(kv.second.s - it->second.s) : max_abs_diff(kv.second.im, it->second.im);
      const double sc = kv.second.scale;
      stats().maxi(cat("rel diff ", what), d / std::max(sc, 1e-30));
      VF_CHECK(d <= TOL_SAME * sc + 1e-30, what, ": ", kind_name[kv.first.first], " subset ", kv.first.second, " differs by ", d, " (magnitude ", sc, ")");
    }
  return Result::pass();
}

// ------------------------------------------------------------------------------------------------
// object histories

// the configuration of a stage = the Case's own (final) configuration with the stage's overrides
json
stage_cfg(const json& c, const json& st)
{
  json s = c;
  s.erase("hist");
  if (st.contains("set") && st["set"].is_object())
    for (auto it = st["set"].begin(); it != st["set"].end(); ++it)
      s[it.key()] = it.value();
  s["ops"] = st.contains("ops") ? st["ops"] : json::array();
  return s;
}

// redundant calls ("touch" bits of a stage): the setter is called although the value did not change
enum Touch
{
  T_DATA = 1,          // set_proj_data_sptr with an equal copy of the data
  T_PAIR = 2,          // set_projector_pair_sptr with a new pair with the same switches
  T_ADD = 4,           // set_additive_proj_data_sptr
  T_NORM = 8,          // set_normalisation_sptr with a new object over the same factors
  T_ZERO = 16,         // set_zero_seg0_end_planes
  T_MS = 32,           // set_max_segment_num_to_process
  T_USS = 64,          // set_use_subset_sensitivities
  T_N = 128,           // set_num_subsets
  T_PRIOR = 256,       // set_prior_sptr with a new prior object
  T_SENS = 512,        // set_recompute_sensitivity(true) again / clear the file names when going back to computed ones
  T_PRIOR_FACTOR = 1024, // a changed penalisation factor goes through set_penalisation_factor of the existing prior object
  T_INPUT = 2048         // the data are handed over through set_input_data (the base-class name of set_proj_data_sptr)
};

const char* const SIG_H1 = "C05:history:max_segment_num_to_process=-1:data-segment-range-changed";
const char* const SIG_H2 = "C05:setter:set_subsensitivity_filenames:empty-string";
void
count_excluded(const char* sig)
{
  stats().excluded_known++;
  stats().count(std::string("excluded:") + sig);
}

// Known findings of the history search (kept out by construction, back in with VERIF_NO_EXCLUDE=1; probes under known/C05/):
// H1  set_up_before_sensitivity overwrites the member max_segment_num_to_process == -1 ("convention: if -1, use
//     get_max_segment_num()") with the segment range of the data of the FIRST set_up.  After set_proj_data_sptr with data of
//     another segment range a later set_up either error()s "max_segment_num_to_process (n) is too large" (smaller range)
//     or silently leaves the additional segments out of value/gradient/sensitivity/Hessian (larger range), although the
//     user never restricted the segments.  Avoided by stating the -1 again through set_max_segment_num_to_process.
// H2  set_subsensitivity_filenames("") -- documented "set to a zero-length string to avoid reading/writing a file" --
//     error()s: boost::format("") % 0 throws too_many_args.  Avoided by not making that call.
bool
h1_restate_ms(const Ctx& from, const Ctx& to)
{
  return to.pass_ms == -1 && from.pass_ms == -1 && from.pdi->get_max_segment_num() != to.pdi->get_max_segment_num();
}

// Calls the setters that turn the settings of stage 'from' into those of stage 'to' on the SAME object.
// All of them are public setters of PoissonLogLikelihoodWithLinearModelForMeanAndProjData / ...ForMean /
// GeneralisedObjectiveFunction, whose documentation says "After using any of these, you have to call set_up()"
// (set_prior_sptr: "You should call set_up() again after using this function"): the caller calls set_up next.
void
apply_setters(Obj& o, const Ctx& from, const Ctx& to, const int touch, const int sens_from, const int sens_to, const std::string& prefix_to,
              std::string& trace)
{
  const bool geom_changed = from.cfg["pdi"] != to.cfg["pdi"];
  auto note = [&](const std::string& what) {
    trace += " " + what + ";";
    stats().count(cat("history setter: ", what.substr(0, what.find('('))));
  };
  if (geom_changed || from.y != to.y || (touch & T_DATA))
    {
      if (touch & T_INPUT)
        o.set_input_data(to.y_pd);
      else
        o.set_proj_data_sptr(to.y_pd);
      if (geom_changed)
        stats().count(cat("history: data of another geometry", from.tof != to.tof ? " (TOF <-> non-TOF)" : ""));
      else if (from.y != to.y)
        stats().count("history: other data of the same geometry");
      note(geom_changed ? "set_proj_data_sptr(other geometry)" : from.y != to.y ? "set_proj_data_sptr(other data)" : "set_proj_data_sptr(equal data)");
    }
  if (from.cfg["matrix"] != to.cfg["matrix"] || (touch & T_PAIR))
    {
      o.set_projector_pair_sptr(shared_ptr<ProjectorByBinPair>(new ProjectorByBinPairUsingProjMatrixByBin(matrix_under_test(to))));
      note(from.cfg["matrix"] != to.cfg["matrix"] ? "set_projector_pair_sptr(other matrix)" : "set_projector_pair_sptr(same switches)");
    }
  if (geom_changed || from.additive != to.additive || (to.additive && from.a != to.a) || (touch & T_ADD))
    {
      // "none" = a null pointer, the constructor's default (set_defaults: additive_proj_data_sptr.reset())
      o.set_additive_proj_data_sptr(to.additive ? shared_ptr<ExamData>(to.a_pd) : shared_ptr<ExamData>());
      note(to.additive ? "set_additive_proj_data_sptr(data)" : "set_additive_proj_data_sptr(none)");
    }
  if (geom_changed || from.norm_kind != to.norm_kind || from.norm_is_tof != to.norm_is_tof
      || (to.norm_kind > 0 && from.cfg["norm_seed"] != to.cfg["norm_seed"]) || (touch & T_NORM))
    {
      // "none" = a TrivialBinNormalisation, the constructor's default (set_defaults)
      o.set_normalisation_sptr(to.norm_kind > 0 ? make_norm(to) : shared_ptr<BinNormalisation>(new TrivialBinNormalisation));
      note(cat("set_normalisation_sptr(", to.norm_kind == 0 ? "trivial" : to.norm_kind == 1 ? "from proj data" : "chained", ")"));
    }
  if (from.zero_ends != to.zero_ends || (touch & T_ZERO))
    {
      o.set_zero_seg0_end_planes(to.zero_ends);
      note(cat("set_zero_seg0_end_planes(", to.zero_ends, ")"));
    }
  if (from.pass_ms != to.pass_ms || (touch & T_MS) || false /* H1 repaired in /repo: the -1 is not stated again */)
    {
      if (from.pass_ms == to.pass_ms && !(touch & T_MS))
        count_excluded(SIG_H1); // the -1 is re-stated after a change of the data's segment range
      o.set_max_segment_num_to_process(to.pass_ms);
      note(cat("set_max_segment_num_to_process(", to.pass_ms, ")"));
    }
  if (from.use_subset_sens != to.use_subset_sens || (touch & T_USS))
    {
      o.set_use_subset_sensitivities(to.use_subset_sens);
      note(cat("set_use_subset_sensitivities(", to.use_subset_sens, ")"));
    }
  if (from.N != to.N || (touch & T_N))
    {
      o.set_num_subsets(to.N);
      note(cat("set_num_subsets(", to.N, ")"));
    }
  if (from.prior_kind != to.prior_kind || (to.prior_kind == 1 && from.beta != to.beta) || (touch & T_PRIOR))
    {
      if (from.prior_kind == 1 && to.prior_kind == 1 && (touch & T_PRIOR_FACTOR))
        { // GeneralisedPrior.inl: "Currently we allow the penalisation factor to be set after calling set_up()"
          o.get_prior_sptr()->set_penalisation_factor(float(to.beta));
          note(cat("prior->set_penalisation_factor(", to.beta, ")"));
        }
      else
        {
          o.set_prior_sptr(to.prior_kind == 1 ? shared_ptr<GeneralisedPrior<Target>>(new QuadraticPrior<float>(false, float(to.beta)))
                                              : shared_ptr<GeneralisedPrior<Target>>());
          note(to.prior_kind == 1 ? cat("set_prior_sptr(quadratic ", to.beta, ")") : std::string("set_prior_sptr(none)"));
        }
    }
  if (sens_to == 1)
    { // read the (subset) sensitivities this stage's writer object has put into files
      if (to.use_subset_sens)
        o.set_subsensitivity_filenames(prefix_to + "subsens_%d.hv");
      else
        o.set_sensitivity_filename(prefix_to + "sens.hv");
      o.set_recompute_sensitivity(false);
      note("sensitivity file name(s) + set_recompute_sensitivity(false)");
    }
  else if (sens_from == 1)
    { // back to computed sensitivities; the file names may stay (the files are then re-written) or be cleared
      o.set_recompute_sensitivity(true);
      if (touch & T_SENS)
        {
          // "set to a zero-length string to avoid reading/writing a file" (PoissonLogLikelihoodWithLinearModelForMean.h)
          o.set_sensitivity_filename("");
          // set_subsensitivity_filenames("") is documented in the same way but error()s (boost::format("") % 0 throws
          // too_many_args).  That is a defect of a setter, not of any quantity C05 speaks about, so the call is simply not
          // part of the generated histories (counted; not a finding of this property).
          stats().count("not generated: set_subsensitivity_filenames(\"\") (outside the property)");
        }
      note((touch & T_SENS) ? "set_recompute_sensitivity(true) + file names cleared" : "set_recompute_sensitivity(true)");
    }
  else if (touch & T_SENS)
    {
      o.set_recompute_sensitivity(true);
      note("set_recompute_sensitivity(true) again");
    }
}

Result
run_history(const json& c, const Ctx& xf, const std::string& dir)
{
  const json& hist = c["hist"];
  const int n = int(hist.size());
  const int mem_fill = c["mem_fill"];
  std::vector<std::unique_ptr<Ctx>> ctxs;
  Holder h;
  h.make(mem_fill);
  Obj& o = *h.o;
  bool sticky = false; // the object's own "use time-of-flight sensitivities" was switched on by an earlier set_up
  const Ctx* prev = nullptr;
  int prev_sens = 0;
  std::string trace = "history:";
  int n_setups = 0;
  for (int k = 0; k <= n; ++k)
    {
      const bool final = k == n;
      json scfg;
      if (final)
        {
          scfg = c;
          scfg.erase("hist");
        }
      else
        scfg = stage_cfg(c, hist[std::size_t(k)]);
      const int sens_k = scfg["sens_source"];
      const int touch = final ? c.value("final_touch", 0) : hist[std::size_t(k)].value("touch", 0);
      const Ctx* X = &xf;
      const bool use_sticky = sticky && sens_k == 0; // sensitivities read from file were computed by a fresh object
      if (!final || (use_sticky && xf.tof && !xf.tofsens_eff))
        {
          ctxs.emplace_back(new Ctx);
          try
            {
              build_ctx(scfg, *ctxs.back(), prev ? prev : &xf, use_sticky);
            }
          catch (const stir_verif::AssertionFailure&)
            {
              throw;
            }
          catch (const std::exception& e)
            {
              return Result::reject(cat("construction of stage ", k, " rejected: ", e.what()));
            }
          X = ctxs.back().get();
        }
      if (use_sticky && X->tof && !X->use_tofsens && !X->norm_is_tof)
        stats().count("history: sensitivities of a later set_up are TOF sensitivities because an earlier set_up saw TOF-only norm data");
      VF_CHECK(X->unowned.empty(), "stage ", k, ": find_basic_vs_nums_in_subset + related view/segments leave ", X->unowned, " out of every one of the ", X->N,
               " subsets although |segment| <= max_segment_num_to_process=", X->ms);
      const std::string prefix = cat(dir, "/s", k, "_");
      const std::string who = cat("stage ", k, " of ", n, final ? " (final settings)" : "");
      RefCache rc;
      bool rejected = false;
      std::string rmsg;
      if (sens_k == 1)
        { // a fresh writer object with this stage's settings computes the sensitivities and writes them to file
          Results W;
          OpList none;
          Result r = run_sequence(*X, rc, none, 0, 1, prefix, W, "writer", rejected, rmsg);
          if (rejected)
            return Result::reject(cat(who, ": writer: ", rmsg));
          if (r.failed())
            return r;
        }
      trace += cat(" [", k, "]");
      shared_ptr<Target> target(X->proto->get_empty_copy());
      target->set_exam_info(*pet_exam_info());
      std::string setup_error;
      if (k > 0)
        { // none of the setters is documented to fail for the arguments used here (the file name patterns are valid
          // boost::format patterns or the documented empty string)
          try
            {
              apply_setters(o, *prev, *X, touch, prev_sens, sens_k, prefix, trace);
            }
          catch (const stir_verif::AssertionFailure&)
            {
              throw;
            }
          catch (const std::exception& e)
            {
              return Result::fail(cat(who, ": a setter used as documented throws: ", e.what(), " | ", trace, " (the call that throws is the last one listed or the one after it)"));
            }
        }
      try
        {
          if (k == 0)
            configure(o, *X, X->N, sens_k == 1 ? 2 : 0, prefix, X->use_tofsens);
          if (k > 0 && !prev->proto->has_same_characteristics(*X->proto))
            {
              trace += " set_up(other target geometry);";
              stats().count("history: set_up with another target geometry");
            }
          else
            trace += " set_up;";
          if (o.set_up(target) != Succeeded::yes)
            setup_error = "set_up returned Succeeded::no";
        }
      catch (const stir_verif::AssertionFailure&)
        {
          throw;
        }
      catch (const std::exception& e)
        {
          setup_error = std::string("error: ") + e.what();
        }
      if (!setup_error.empty())
        {
          if (k == 0)
            return Result::reject(cat("objective function set_up: ", setup_error));
          // legal use: a combination of settings the class rejects is rejected by a fresh object as well
          Holder t;
          make_fresh(t, *X, 0, sens_k == 1 ? 2 : 0, prefix, X->use_tofsens, rejected, rmsg);
          if (rejected)
            return Result::reject(cat(who, ": ", setup_error));
          return Result::fail(cat(who, ": setters + set_up fail on the object with a history (", setup_error,
                                  ") although a freshly constructed object accepts the same settings | ", trace));
        }
      ++n_setups;
      if (k > 0 && sens_k == 0 && X->use_subset_sens)
        {
          if (!prev->use_subset_sens && std::min(prev->N, X->N) >= 3)
            stats().count("history pattern: subset sensitivities switched on between two set_ups, >= 3 subsets before and after");
          if (prev->use_subset_sens && std::min(prev->N, X->N) >= 2)
            stats().count("history pattern: subset sensitivities recomputed by a later set_up, >= 2 subsets before and after");
        }
      // set_up_before_sensitivity: TOF data + TOF-only norm + recompute => the object's use_tofsens member is switched on
      if (sens_k == 0 && X->tof && X->norm_is_tof && X->pdi->get_num_tof_poss() > 1)
        sticky = true;
      const OpList l = decode_ops(scfg["ops"], *X);
      Results R;
      Result r = Result::pass();
      try
        {
          r = run_requests(o, *X, rc, l, R, who);
        }
      catch (const stir_verif::AssertionFailure& e)
        {
          return Result::fail(cat("ASSERT: ", who, ": ", e.what(), " | ", trace));
        }
      catch (const std::exception& e)
        {
          return Result::fail(cat("EXCEPTION: ", who, ": a request throws: ", e.what(), " | ", trace));
        }
      if (r.failed())
        return Result::fail(cat(r.msg, " | ", trace));
      if (final)
        { // the freshly constructed twin: same settings, same requests, other memory pattern
          Results T;
          const bool twin_tofsens = X->use_tofsens || (sticky && X->tof);
          r = run_sequence(*X, rc, l, 1 - mem_fill, sens_k == 1 ? 2 : 0, prefix, T, "freshly constructed twin", rejected, rmsg, twin_tofsens ? 1 : 0);
          if (rejected)
            return Result::reject(cat("freshly constructed twin: ", rmsg));
          if (r.failed())
            return r;
          r = compare_results(R, T, "object with history vs freshly constructed twin");
          if (r.failed())
            return Result::fail(cat(r.msg, " | ", trace));
        }
      prev = X;
      prev_sens = sens_k;
    }
  stats().cls("object history");
  stats().cls(cat("object history: ", n_setups, " set_ups on one object"));
  stats().count("history: set_ups on objects with a history", n_setups - 1);
  return Result::pass();
}

const int PERM6[6] = { VALUE_S, GRAD_S, GRADSENS_S, SENS_S, HESS_S, AHESS_S };

Result
check(const json& c)
{
  vg::quiet();
  Ctx x;
  try
    {
      build_ctx(c, x);
    }
  catch (const stir_verif::AssertionFailure&)
    {
      throw;
    }
  catch (const std::exception& e)
    {
      return Result::reject(std::string("construction rejected: ") + e.what());
    }
  VF_CHECK(x.unowned.empty(), "find_basic_vs_nums_in_subset + related view/segments leave ", x.unowned, " out of every one of the ", x.N,
           " subsets although |segment| <= max_segment_num_to_process=", x.ms);
  struct DirGuard
  {
    std::string d;
    ~DirGuard()
    {
      if (!d.empty())
        remove_dir(d);
    }
  } guard;
  const int sens_source = c["sens_source"]; // 0: computed in set_up, 1: read from files (recompute_sensitivity=false)
  const int mem_fill = c["mem_fill"];
  RefCache rc;
  const bool with_history = c.contains("hist") && c["hist"].is_array() && !c["hist"].empty() && !c.value("all_orders", false);
  bool need_dir = sens_source == 1;
  if (with_history)
    for (const json& st : c["hist"])
      if (st.contains("set") && st["set"].value("sens_source", 0) == 1)
        need_dir = true;
  std::string dir, pre;
  if (need_dir)
    {
      dir = tmp_dir();
      guard.d = dir;
      pre = dir + "/";
    }
  bool rejected = false;
  std::string rmsg;

  if (with_history)
    {
      Result r = run_history(c, x, dir);
      if (r.kind != Result::PASS)
        return r;
    }
  else if (c.value("all_orders", false))
    { // every order of first use of the six kinds of request, a fresh object per order
      std::vector<int> perm = { 0, 1, 2, 3, 4, 5 };
      Results first;
      long n = 0, run = 0;
      do
        {
          // the ASan/UBSan build (about 15x slower) runs every 8th order only
          if (C05_SANITIZED && n % 8 != 0)
            {
              ++n;
              continue;
            }
          ++run;
          OpList l;
          for (int k : perm)
            l.ops.push_back(std::make_pair(PERM6[k], PERM6[k] == VALUE_S ? int(c["order_subset"].get<int>() % x.N) : int((n + k) % x.N)));
          Results res;
          Result r = run_sequence(x, rc, l, int(n % 2), 0, pre, res, cat("order #", n), rejected, rmsg);
          if (rejected)
            return Result::reject(rmsg);
          if (r.failed())
            return r;
          if (n == 0)
            first = res;
          else
            {
              r = compare_results(first, res, "first order vs another order of first use");
              if (r.failed())
                return Result::fail(cat("order #", n, ": ", r.msg));
            }
          ++n;
      } while (std::next_permutation(perm.begin(), perm.end()));
      stats().count("first-use orders run", run);
      stats().cls(C05_SANITIZED ? "90 of the 720 first-use orders (sanitizer build)" : "all 720 first-use orders");
    }
  else
    {
      const OpList l = decode_ops(c["ops"], x);
      Results A, B;
      if (sens_source == 1)
        { // a first object computes the sensitivities and writes them to file; the object under test reads them
          Results W;
          OpList none;
          Result r = run_sequence(x, rc, none, 0, 1, pre, W, "writer", rejected, rmsg);
          if (rejected)
            return Result::reject(rmsg);
          if (r.failed())
            return r;
        }
      Result r = run_sequence(x, rc, l, mem_fill, sens_source == 1 ? 2 : 0, pre, A, "object A", rejected, rmsg);
      if (rejected)
        return Result::reject(rmsg);
      if (r.failed())
        return r;
      if (c["second_object"].get<bool>())
        { // the same requests in reverse order on a fresh object (other memory pattern): same numbers
          OpList rev = l;
          std::reverse(rev.ops.begin(), rev.ops.end());
          r = run_sequence(x, rc, rev, sens_source == 1 ? mem_fill : 1 - mem_fill, sens_source == 1 ? 2 : 0, pre, B, "object B (reverse order)", rejected, rmsg);
          if (rejected)
            return Result::reject(rmsg);
          if (r.failed())
            return r;
          r = compare_results(A, B, "object A vs object B (reverse order)");
          if (r.failed())
            return r;
          stats().cls("second object in reverse order");
        }
      if (c["sum_check"].get<bool>() && x.N > 1)
        { // sum over all subsets of the N-subset object = the quantity of a one-subset object
          Ctx x1 = x; // same data, one subset
          x1.N = 1;
          for (int& o : x1.owner)
            o = o >= 0 ? 0 : -1;
          for (int& o : x1.owner0)
            o = o >= 0 ? 0 : -1;
          RefCache rc1;
          OpList l1;
          for (int k : { int(VALUE_S), int(GRAD_S), int(GRADSENS_S), int(SENS_S) })
            l1.ops.push_back(std::make_pair(k, 0));
          if (!excluded_op(x, HESS_S))
            l1.ops.push_back(std::make_pair(int(HESS_S), 0));
          Results R1;
          r = run_sequence(x1, rc1, l1, 0, 0, pre, R1, "one-subset object", rejected, rmsg);
          if (rejected)
            return Result::reject(rmsg);
          if (r.failed())
            return r;
          OpList lall;
          for (const auto& op : l1.ops)
            for (int S = 0; S < x.N; ++S)
              lall.ops.push_back(std::make_pair(op.first, S));
          Results RN;
          r = run_sequence(x, rc, lall, 0, 0, pre, RN, "N-subset object (all subsets)", rejected, rmsg);
          if (rejected)
            return Result::reject(rmsg);
          if (r.failed())
            return r;
          for (const auto& op : l1.ops)
            {
              const Rec& one = R1[std::make_pair(op.first, 0)];
              double ssum = 0;
              std::vector<double> isum(one.im.size(), 0.);
              for (int S = 0; S < x.N; ++S)
                {
                  const Rec& rs = RN[std::make_pair(op.first, S)];
                  ssum += rs.s;
                  for (std::size_t i = 0; i < isum.size(); ++i)
                    isum[i] += rs.im[i] - (op.first == HESS_S ? x.out0[i] : 0.);
                }
              if (op.first == HESS_S)
                for (std::size_t i = 0; i < isum.size(); ++i)
                  isum[i] += x.out0[i];
              const double d = one.is_scalar ? std::fabs(ssum - one.s) : max_abs_diff(isum, one.im);
              stats().maxi("rel diff sum over subsets vs one-subset object", d / std::max(one.scale, 1e-30));
              VF_CHECK(d <= TOL_SUM * one.scale + 1e-30, "sum over the ", x.N, " subsets of ", kind_name[op.first],
                       " differs from the one-subset object's by ", d, " (magnitude ", one.scale, ")");
            }
          stats().cls("sum over subsets vs one-subset object");
        }
    }

  // ---- class histogram
  stats().cls(x.tof ? "TOF" : "non-TOF");
  if (x.tof)
    stats().cls(x.tofsens_eff ? "TOF: TOF sensitivities" : "TOF: non-TOF sensitivities");
  stats().cls(cat("normalisation: ", x.norm_kind == 0 ? "trivial" : x.norm_kind == 1 ? "from proj data" : "chained", x.norm_is_tof ? " (TOF)" : ""));
  stats().cls(x.additive ? "additive term" : "no additive term");
  if (x.zero_ends)
    stats().cls("zero_seg0_end_planes");
  if (x.ms < x.pdi->get_max_segment_num())
    stats().cls("max_segment_num_to_process < max segment");
  stats().cls(x.use_subset_sens ? "subset sensitivities" : "total sensitivity / num_subsets");
  stats().cls(x.N == 1 ? "num_subsets=1" : (x.pdi->get_num_views() % x.N == 0 ? "num_subsets>1 divides num_views" : "num_subsets does not divide num_views"));
  if (x.prior_kind)
    stats().cls("quadratic prior");
  if (x.prior_kind && x.beta == 0)
    stats().cls("prior with penalisation factor 0");
  if (x.image_zero_frac > 0)
    stats().cls(x.image_zero_frac >= 1 ? "image: all voxels exactly 0 (additive term present)" : "image: some voxels exactly 0");
  if (x.additive && x.add_zero_frac > 0)
    stats().cls(x.add_zero_frac >= 1 ? "additive term present but 0 everywhere" : "additive term: some bins exactly 0");
  if (x.norm_wide)
    stats().cls("normalisation data with more segments than the emission data");
  if (c.value("dir_zero_frac", 0.) >= 0.9)
    stats().cls(c.value("dir_zero_frac", 0.) >= 1 ? "Hessian direction: all voxels 0" : "Hessian direction: almost all voxels 0");
  if (x.data_mode)
    stats().cls(x.data_mode == 1 ? "data: all bins 0" : x.data_mode == 2 ? "data: whole viewgrams 0" : "data: one non-zero bin");
  {
    long zero_mean = 0;
    for (std::size_t b = 0; b < x.y.size(); ++b)
      if (x.owner[b] >= 0 && !x.z[b] && x.fl[b] + x.a[b] == 0)
        ++zero_mean;
    if (zero_mean)
      stats().cls("some processed bins have model mean exactly 0");
  }
  if (sens_source == 1)
    stats().cls("sensitivities read from file (recompute_sensitivity=false)");
  if (c["threshold_class"].get<bool>())
    stats().cls("labelled threshold class");
  if (x.pdi->get_num_segments() > 1)
    stats().cls("3D (several segments)");
  stats().maxi("bins", double(x.P.nbins()));
  stats().maxi("voxels", double(x.nvox()));
  return Result::pass();
}

// ------------------------------------------------------------------------------------------------
// generator

long
count_bins(const ProjDataInfo& p)
{
  long n = 0;
  for (int s = p.get_min_segment_num(); s <= p.get_max_segment_num(); ++s)
    n += long(p.get_num_axial_poss(s)) * p.get_num_views() * p.get_num_tangential_poss();
  return n * p.get_num_tof_poss();
}

json
gen_matrix(Src& s)
{
  json m;
  m["num_tangential_LORs"] = int(s.pick(std::vector<int>{ 1, 1, 1, 2, 3 }));
  m["restrict_to_cylindrical_FOV"] = s.chance(3, 4);
  const bool all_sym = s.chance(1, 2);
  m["s90"] = all_sym || s.coin();
  m["s180"] = all_sym || s.coin();
  m["swap_seg"] = all_sym || s.coin();
  m["swap_s"] = all_sym || s.coin();
  m["shift_z"] = all_sym || s.coin();
  m["cache"] = s.chance(3, 4);
  m["only_basic"] = s.coin();
  return m;
}

// every legal number of subsets of a configuration. With use_subset_sensitivities off, set_up demands balanced subsets
// (PoissonLogLikelihoodWithLinearModelForMean.cxx: "Number of subsets %d is such that subsets will be very unbalanced")
std::vector<int>
legal_subsets(const json& c, const shared_ptr<ProjDataInfo>& pdi)
{
  const json& m = c["matrix"];
  const int views = pdi->get_num_views();
  std::vector<int> legal;
  if (c["use_subset_sens"].get<bool>())
    for (int N = 1; N <= views; ++N)
      legal.push_back(N);
  else
    {
      try
        {
          shared_ptr<VoxelsOnCartesianGrid<float>> im = vg::make_image(c["image"], *pdi, 7);
          shared_ptr<ProjectorByBinPair> pair(new ProjectorByBinPairUsingProjMatrixByBin(
              vp::make_matrix(vp::MatrixOpts(), m["s90"], m["s180"], m["swap_seg"], m["swap_s"], m["shift_z"], false, false)));
          pair->set_up(pdi, im);
          Obj o;
          o.set_proj_data_sptr(shared_ptr<ProjData>(new ProjDataInMemory(pet_exam_info(), pdi, false)));
          o.set_projector_pair_sptr(pair);
          const int ms = c["max_seg"].get<int>() < 0 ? pdi->get_max_segment_num() : std::min(c["max_seg"].get<int>(), pdi->get_max_segment_num());
          o.set_max_segment_num_to_process(ms);
          for (int N = 1; N <= views; ++N)
            {
              o.set_num_subsets(N);
              if (o.subsets_are_approximately_balanced())
                legal.push_back(N);
            }
        }
      catch (const std::exception&)
        {
        }
      if (legal.empty())
        legal.push_back(1);
    }
  return legal;
}

json
gen_config(Src& s, int size, int force_tof /* -1 free, 0 no, 1 yes */)
{
  json c;
  vg::ScannerOpts so;
  so.max_ndet = size < 40 ? 16 : 32;
  so.max_rings = 3;
  so.allow_blocks = false;
  so.allow_predefined = false;
  so.allow_tof = force_tof != 0;
  vg::PdiOpts po;
  po.allow_arccorr = false;
  po.max_span = 5;
  shared_ptr<Scanner> sc;
  shared_ptr<ProjDataInfo> pdi;
  const long max_bins = size < 40 ? 2500 : 5000;
  for (int attempt = 0;; ++attempt)
    {
      c["scanner"] = vg::gen_scanner(s, so);
      if (attempt >= 30)
        { // fall back to something that certainly fits
          c["scanner"]["tof_poss"] = 0;
          c["scanner"]["max_tang"] = std::min(7, c["scanner"]["max_tang"].get<int>());
        }
      sc = vg::make_scanner(c["scanner"]);
      if (sc->check_consistency() != Succeeded::yes)
        continue;
      if (force_tof == 1 && !sc->is_tof_ready() && attempt < 30)
        continue;
      c["pdi"] = vg::gen_pdi(s, *sc, po);
      c["pdi"]["arccorr"] = false;
      if (sc->is_tof_ready())
        { // keep the number of TOF bins small (1, 3 or 5): choose the mash factor accordingly
          std::vector<int> ok;
          const int T = sc->get_max_num_timing_poss();
          for (int m = 1; m <= T; ++m)
            if (T % m == 0 && (T / m) % 2 == 1 && T / m <= 5 && (force_tof != 1 || T / m > 1))
              ok.push_back(m);
          if (force_tof != 1)
            ok.push_back(0);
          if (ok.empty())
            continue;
          c["pdi"]["tof_mash"] = s.pick(ok);
        }
      try
        {
          pdi = vg::make_pdi(sc, c["pdi"]);
        }
      catch (const std::exception&)
        {
          continue;
        }
      if (count_bins(*pdi) <= max_bins || attempt >= 40)
        break;
    }
  vg::ImageOpts io;
  io.max_xy = size < 40 ? 7 : 11;
  c["image"] = vg::gen_image(s, io);
  json m = gen_matrix(s);
  c["matrix"] = m;

  const bool tof = pdi->is_tof_data();
  c["additive"] = s.chance(1, 2);
  c["add_scale"] = s.pick(std::vector<double>{ 0.1, 1., 1., 10. });
  c["norm"] = int(s.pick(std::vector<int>{ 0, 1, 1, 2 }));
  c["norm_tof"] = tof && s.chance(1, 3);
  c["zero_ends"] = s.chance(1, 4);
  c["max_seg"] = s.chance(2, 3) ? -1 : int(s.range(0, std::max(0, pdi->get_max_segment_num())));
  c["use_subset_sens"] = s.chance(2, 3);
  c["use_tofsens"] = tof && s.chance(1, 2);
  // fully mashed TOF data (one TOF bin, tof_mash_factor > 0) with norm data of the same kind: is_TOF_only_norm()
  // (num_tof_poss > 1) is false, so set_up error()s with 'Set_up of norm with non-TOF data failed. If your norm is TOF,
  // set "use time-of-flight sensitivities" to true' -- do what the message says
  if (tof && pdi->get_num_tof_poss() == 1 && c["norm"].get<int>() > 0 && c["norm_tof"].get<bool>())
    c["use_tofsens"] = true;
  c["prior"] = s.chance(1, 3) ? 1 : 0;
  c["beta"] = s.pick(std::vector<double>{ 0.1, 1., 10. });
  c["image_seed"] = s.seed64();
  c["dir_seed"] = s.seed64();
  c["dir_zero_frac"] = s.pick(std::vector<double>{ 0., 0., 0.2 });
  c["data_seed"] = s.seed64();
  c["add_seed"] = s.seed64();
  c["norm_seed"] = s.seed64();
  c["threshold_class"] = s.chance(1, 10);
  c["mem_fill"] = s.coin() ? 1 : 0;
  c["sens_source"] = s.chance(1, 6) ? 1 : 0;
  c["second_object"] = s.chance(1, 2);
  c["sum_check"] = s.chance(1, 5);

  // ---- number of subsets: every legal one
  const std::vector<int> legal = legal_subsets(c, pdi);
  // bias: one subset 1/5, otherwise uniform over the legal values
  c["num_subsets"] = (s.chance(1, 5) || legal.size() == 1) ? 1 : legal[std::size_t(s.range(1, long(legal.size()) - 1))];
  return c;
}

// ---- known finding: the input class, as predicates on the Case -----------------------------------
inline int
op_kind(const json& o)
{
  return int(((o[0].get<long>() % NUM_KINDS) + NUM_KINDS) % NUM_KINDS);
}
bool
ops_have_subset_sens(const json& c)
{
  if (c.value("all_orders", false))
    return true;
  for (const json& o : c["ops"])
    if (op_kind(o) == SENS_S)
      return true;
  return false;
}
// configuration part of F5: TOF data, non-TOF sensitivities, subset sensitivities, >1 subset, and the non-TOF
// sensitivity projector forms other subsets than the TOF projectors
bool
f5_config(const json& c)
{
  if (c["pdi"]["tof_mash"].get<int>() <= 0 || c["use_tofsens"].get<bool>() || !c["use_subset_sens"].get<bool>() || c["num_subsets"].get<int>() < 2)
    return false;
  if (c["norm"].get<int>() > 0 && c["norm_tof"].get<bool>())
    return false; // TOF norm data switch TOF sensitivities on
  try
    {
      shared_ptr<Scanner> sc = vg::make_scanner(c["scanner"]);
      shared_ptr<ProjDataInfo> pdi = vg::make_pdi(sc, c["pdi"]);
      if (!pdi->is_tof_data())
        return false;
      shared_ptr<VoxelsOnCartesianGrid<float>> im = vg::make_image(c["image"], *pdi, 7);
      vp::MatrixOpts mo;
      mo.num_tangential_LORs = c["matrix"]["num_tangential_LORs"];
      mo.restrict_to_cylindrical_FOV = c["matrix"]["restrict_to_cylindrical_FOV"];
      const int max_seg = c["max_seg"];
      const int ms = (max_seg < 0) ? pdi->get_max_segment_num() : std::min(max_seg, pdi->get_max_segment_num());
      return nontof_sens_subsets_differ(pdi, im, c["matrix"], mo, ms, c["num_subsets"]);
    }
  catch (const std::exception&)
    {
      return false;
    }
}

// signature of the known-finding class a case belongs to ("" = none; always "" when VERIF_NO_EXCLUDE is set).
// The two findings of the history search are not whole-case classes: their signatures are SIG_H1
// ("C05:history:max_segment_num_to_process=-1:data-segment-range-changed") and SIG_H2
// ("C05:setter:set_subsensitivity_filenames:empty-string"); exactly the offending call sequence is avoided inside
// apply_setters() (H1: the -1 is stated again, H2: the call is left out), counted under excluded_known, and everything
// else of such a case is still checked.
std::string
known_signature(const json& c)
{
  if (no_exclude())
    return "";
  if (ops_have_subset_sens(c) && f5_config(c))
    return "C05:tof:nontof-subset-sensitivity:view-symmetries";
  return "";
}

// development/triage aid: VERIF_C05_FORCE='{"zero_ends":false,"force_tof":0,...}' overrides generated fields
const json&
forced()
{
  static const json f = [] {
    const char* e = std::getenv("VERIF_C05_FORCE");
    return e ? json::parse(e) : json::object();
  }();
  return f;
}

void gen_history(Src& s, json& c, const int size);

json
gen(Src& s, int size)
{
  json c = gen_config(s, size, forced().value("force_tof", -1));
  // norm data with MORE segments than the emission data (accepted by BinNormalisationFromProjData::set_up): a fifth of the
  // untrimmed 3D configurations with norm data get their emission data trimmed to fewer segments (only with subset
  // sensitivities on: then every num_subsets stays legal whatever the segment range), the norm data keep all segments
  if (c["norm"].get<int>() > 0 && c["use_subset_sens"].get<bool>() && c["pdi"]["trim"].empty() && s.chance(1, 5))
    {
      const int full_max = vg::make_pdi(vg::make_scanner(c["scanner"]), c["pdi"])->get_max_segment_num();
      if (full_max >= 1)
        {
          c["pdi"]["trim"] = json::object();
          c["pdi"]["trim"]["max_seg"] = int(s.range(0, full_max - 1));
          c["pdi"]["trim"]["tang_cut"] = 0;
          c["norm_wide"] = true;
        }
    }
  // ops: a random order of first use of the six kinds of request, then further requests (also all-subsets forms)
  std::vector<int> kinds = { 0, 1, 2, 3, 4, 5 };
  json ops = json::array();
  for (int i = 5; i >= 0; --i)
    {
      const int j = int(s.range(0, i));
      std::swap(kinds[std::size_t(i)], kinds[std::size_t(j)]);
      int k = kinds[std::size_t(i)];
      if (s.chance(1, 4) && k != GRADSENS_S)
        k += 6; // the all-subsets form of the same kind
      if (k == 6 + GRADSENS_S)
        k = GRADSENS_S;
      ops.push_back(json::array({ k, int(s.range(0, 63)) }));
    }
  const int extra = int(s.range(0, 4));
  for (int i = 0; i < extra; ++i)
    ops.push_back(json::array({ int(s.range(0, NUM_KINDS - 1)), int(s.range(0, 63)) }));
  // known finding F5: most affected configurations get request lists WITHOUT the affected request kind, so that
  // everything else is still checked on them; the remaining quarter is the excluded class (known_signature)
  const bool keep_f5 = s.chance(1, 4);
  if (!no_exclude())
    {
      c["ops"] = ops;
      const bool f5 = !keep_f5 && ops_have_subset_sens(c) && f5_config(c);
      for (json& o : ops)
        {
          const int k = op_kind(o);
          if (f5 && k == SENS_S)
            o[0] = int(SENS_ALL);
        }
    }
  c["ops"] = ops;
  // "convention: if -1, use get_max_segment_num()": half of the cases hand the -1 itself to the setter
  c["ms_literal"] = s.coin();
  // ---- value domains at their boundaries (statement: "any non-negative image, measured data, additive term"): exact
  //      zeros in the image and in the additive term, degenerate data, a prior with penalisation factor 0.
  //      Drawn here (not in gen_config) so that the fixed corner histories and the 720-order configurations stay as they were.
  {
    double izf = s.pick(std::vector<double>{ 0., 0., 0., 0., 0.3, 0.3, 0.9, 1. });
    double azf = s.pick(std::vector<double>{ 0., 0., 0., 0.3, 0.3, 1. });
    // an all-zero image is only combined with an additive term that is positive in most bins: with model mean 0
    // everywhere the statement ("wherever ybar_b > 0") says nothing
    if (izf >= 1. && !c["additive"].get<bool>())
      izf = 0.9;
    if (izf >= 1. && azf >= 1.)
      azf = 0.3;
    c["image_zero_frac"] = izf;
    c["add_zero_frac"] = azf;
    c["data_mode"] = int(s.pick(std::vector<int>{ 0, 0, 0, 0, 0, 0, 1, 2, 2, 3 }));
    // the direction v of the Hessian products: (almost) all voxels 0 -> whole numerator viewgrams are 0
    if (s.chance(1, 6))
      c["dir_zero_frac"] = s.coin() ? 1. : 0.95;
    // norm data with more segments than the (trimmed) emission data
    c["norm_wide"] = s.chance(3, 4) || c.value("norm_wide", false);
    if (c["prior"].get<int>() == 1 && s.chance(1, 6))
      c["beta"] = 0.; // GeneralisedPrior: penalisation factor 0 = "no prior" (the prior's share is 0)
  }
  // object histories: a little less than half of the generated cases (the others are the fresh-object cases)
  const int hist_pct = forced().value("hist_pct", 45);
  if (int(s.range(0, 99)) < hist_pct)
    {
      gen_history(s, c, size);
      c["second_object"] = false; // the history cases always run a freshly constructed twin instead
      c["sum_check"] = false;
    }
  for (auto it = forced().begin(); it != forced().end(); ++it)
    if (it.key() != "force_tof" && it.key() != "hist_pct")
      c[it.key()] = it.value();
  return c;
}

// ------------------------------------------------------------------------------------------------
// object histories: the earlier stages of the object are generated BACKWARDS from the Case's own (final) settings, a
// few changed settings per set_up, so that consecutive stages differ in the setters a user would call in between
enum HKind
{
  HK_N,
  HK_USS,
  HK_ZERO,
  HK_MS,
  HK_ADD,
  HK_NORM,
  HK_DATA,
  HK_GEOM,
  HK_PAIR,
  HK_PRIOR,
  HK_SENS,
  HK_TARGET
};

json
gen_stage_ops(Src& s, int max_n)
{
  json ops = json::array();
  const int n = int(s.range(0, max_n));
  for (int i = 0; i < n; ++i)
    ops.push_back(json::array({ int(s.range(0, NUM_KINDS - 1)), int(s.range(0, 63)) }));
  return ops;
}

int
gen_touch(Src& s)
{
  int t = 0;
  for (int b = 0; b < 12; ++b)
    if (s.range(0, 5) == 5) // (shrinks towards "no redundant call")
      t |= 1 << b;
  return t;
}

// the settings of the stage before 'cur'
json
gen_previous_stage(Src& s, const json& cur, const shared_ptr<Scanner>& sc, const int size)
{
  json prev = cur;
  const long max_bins = size < 40 ? 2500 : 5000;
  static const std::vector<int> kinds = { HK_N,   HK_N,    HK_USS,  HK_USS,  HK_USS,   HK_ZERO, HK_MS,   HK_ADD,
                                          HK_NORM, HK_DATA, HK_GEOM, HK_PAIR, HK_PRIOR, HK_SENS, HK_SENS, HK_TARGET };
  const int nk = int(s.pick(std::vector<int>{ 0, 1, 1, 1, 2, 2, 3 })); // 0: set_up is simply called again
  bool new_N = false;
  for (int j = 0; j < nk; ++j)
    switch (s.pick(kinds))
      {
      case HK_N:
        new_N = true;
        break;
      case HK_USS:
        prev["use_subset_sens"] = !prev["use_subset_sens"].get<bool>();
        break;
      case HK_ZERO:
        prev["zero_ends"] = !prev["zero_ends"].get<bool>();
        break;
      case HK_MS:
        prev["max_seg"] = s.coin() ? -1 : int(s.range(0, 2));
        prev["ms_literal"] = s.coin();
        break;
      case HK_ADD:
        if (prev["additive"].get<bool>() && s.coin())
          prev["additive"] = false;
        else
          {
            prev["additive"] = true;
            prev["add_seed"] = s.seed64();
            prev["add_scale"] = s.pick(std::vector<double>{ 0.1, 1., 1., 10. });
            prev["add_zero_frac"] = s.pick(std::vector<double>{ 0., 0., 0.3 });
          }
        break;
      case HK_NORM:
        prev["norm"] = int(s.pick(std::vector<int>{ 0, 1, 1, 2 }));
        prev["norm_seed"] = s.seed64();
        break;
      case HK_DATA:
        prev["data_seed"] = s.seed64();
        prev["data_mode"] = int(s.pick(std::vector<int>{ 0, 0, 0, 1, 2, 3 }));
        break;
      case HK_GEOM:
        { // other projection data geometry on the same scanner, same axial structure (span, max ring difference)
          json p = prev["pdi"];
          const int ndet = sc->get_num_detectors_per_ring();
          switch (int(s.range(0, 3)))
            {
            case 0:
              p["views"] = ndet / 2 / s.pick(vg::divisors(ndet / 2));
              break;
            case 1:
              p["tang"] = int(s.range(std::min(2, sc->get_max_num_non_arccorrected_bins()), sc->get_max_num_non_arccorrected_bins()));
              break;
            case 2:
              if (p["trim"].empty())
                {
                  p["trim"] = json::object();
                  p["trim"]["max_seg"] = int(s.range(0, 2));
                  p["trim"]["tang_cut"] = int(s.range(0, 2));
                }
              else
                p["trim"] = json::object();
              break;
            default:
              if (sc->is_tof_ready())
                {
                  std::vector<int> ok;
                  const int T = sc->get_max_num_timing_poss();
                  for (int m = 1; m <= T; ++m)
                    if (T % m == 0 && (T / m) % 2 == 1 && T / m <= 5)
                      ok.push_back(m);
                  ok.push_back(0);
                  p["tof_mash"] = s.pick(ok);
                }
              break;
            }
          try
            {
              shared_ptr<ProjDataInfo> q = vg::make_pdi(sc, p);
              if (count_bins(*q) <= max_bins)
                prev["pdi"] = p;
            }
          catch (const std::exception&)
            {
            }
        }
        break;
      case HK_PAIR:
        if (s.chance(2, 3))
          prev["matrix"] = gen_matrix(s);
        else
          prev["touch_hint"] = int(T_PAIR); // a new pair object with the same switches
        break;
      case HK_PRIOR:
        if (prev["prior"].get<int>() == 1 && s.coin())
          prev["prior"] = 0;
        else
          {
            prev["prior"] = 1;
            prev["beta"] = s.pick(std::vector<double>{ 0.1, 1., 10., 0. });
          }
        break;
      case HK_SENS:
        prev["sens_source"] = 1 - prev["sens_source"].get<int>();
        break;
      case HK_TARGET:
        {
          vg::ImageOpts io;
          io.max_xy = size < 40 ? 7 : 11;
          prev["image"] = vg::gen_image(s, io);
        }
        break;
      }
  // ---- keep the stage legal
  // (an all-zero image only together with an additive term that is positive somewhere, see gen())
  if (prev.value("image_zero_frac", 0.) >= 1. && (!prev["additive"].get<bool>() || prev.value("add_zero_frac", 0.) >= 1.))
    prev["image_zero_frac"] = 0.9;
  shared_ptr<ProjDataInfo> pdi = vg::make_pdi(sc, prev["pdi"]);
  const bool tof = pdi->is_tof_data();
  if (!tof)
    prev["norm_tof"] = false;
  else if (prev["pdi"] != cur["pdi"])
    prev["norm_tof"] = s.chance(1, 3);
  // the rule of gen_config for fully mashed TOF data ("use time-of-flight sensitivities" is fixed at construction)
  if (tof && pdi->get_num_tof_poss() == 1 && prev["norm"].get<int>() > 0 && prev["norm_tof"].get<bool>() && !prev["use_tofsens"].get<bool>())
    prev["norm_tof"] = false;
  const std::vector<int> legal = legal_subsets(prev, pdi);
  const int N = prev["num_subsets"];
  if (new_N || std::find(legal.begin(), legal.end(), N) == legal.end())
    {
      std::vector<int> big;
      for (int L : legal)
        if (L >= 3)
          big.push_back(L);
      if (!big.empty() && s.chance(2, 3))
        prev["num_subsets"] = s.pick(big);
      else
        prev["num_subsets"] = s.pick(legal);
    }
  return prev;
}

void
gen_history(Src& s, json& c, const int size)
{
  shared_ptr<Scanner> sc = vg::make_scanner(c["scanner"]);
  const int nstages = int(s.pick(std::vector<int>{ 1, 1, 1, 2, 2, 3 }));
  json base = c;
  base.erase("ops");
  std::vector<json> stages; // backwards in time
  std::vector<int> hints;
  json cur = base;
  for (int i = 0; i < nstages; ++i)
    {
      json prev = gen_previous_stage(s, cur, sc, size);
      // the hint belongs to the transition prev -> cur, i.e. to the stage that is entered
      hints.push_back(prev.value("touch_hint", 0));
      prev.erase("touch_hint");
      stages.push_back(prev);
      cur = prev;
    }
  json hist = json::array();
  int touch_next = 0;
  for (int i = nstages - 1; i >= 0; --i)
    {
      json st;
      json set = json::object();
      for (auto it = stages[std::size_t(i)].begin(); it != stages[std::size_t(i)].end(); ++it)
        if (!base.contains(it.key()) || base[it.key()] != it.value())
          set[it.key()] = it.value();
      st["set"] = set;
      st["ops"] = gen_stage_ops(s, 3);
      st["touch"] = gen_touch(s) | touch_next;
      touch_next = hints[std::size_t(i)];
      hist.push_back(st);
    }
  c["hist"] = hist;
  c["final_touch"] = gen_touch(s) | touch_next;
}

// corner histories that every run executes (two configurations, non-TOF and TOF with TOF sensitivities):
//  0: set_up with use_subset_sensitivities off (the entries 1..N-1 of the subset-sensitivity table alias ONE image), switched
//     on, set_up again, N >= 3;  1: the same settings set_up twice, subset sensitivities on;  2: subset sensitivities on,
//     N_large -> N_small;  3: subset sensitivities on -> off.  Final requests: the sensitivity of EVERY subset, the total,
//     gradient+sensitivity, gradient and value of one subset.
std::vector<json>
fixed_cases(int /*tier*/)
{
  std::vector<json> out;
  for (int cfg = 0; cfg < 2; ++cfg)
    {
      json c;
      std::vector<int> balanced;
      for (uint64_t seed = 0; seed < 200; ++seed)
        { // the first generated small configuration that has a balanced number of subsets >= 3
          vf::PrngSrc s(0xC05A + 104729 * seed + uint64_t(cfg));
          c = gen_config(s, 20, cfg);
          c["use_subset_sens"] = false;
          if (cfg == 1)
            c["use_tofsens"] = true;
          c["sens_source"] = 0;
          c["threshold_class"] = false;
          c["second_object"] = false;
          c["sum_check"] = false;
          shared_ptr<Scanner> sc = vg::make_scanner(c["scanner"]);
          shared_ptr<ProjDataInfo> pdi = vg::make_pdi(sc, c["pdi"]);
          balanced.clear();
          for (int L : legal_subsets(c, pdi))
            if (L >= 3)
              balanced.push_back(L);
          if (!balanced.empty())
            break;
        }
      if (balanced.empty())
        continue;
      const int N = balanced.front();
      c["use_subset_sens"] = true;
      c["num_subsets"] = N;
      c["ms_literal"] = true;
      c["final_touch"] = 0;
      json ops = json::array();
      for (int S = 0; S < N; ++S)
        ops.push_back(json::array({ int(SENS_S), S }));
      ops.push_back(json::array({ int(SENS_ALL), 0 }));
      ops.push_back(json::array({ int(GRADSENS_S), N - 1 }));
      ops.push_back(json::array({ int(GRAD_S), N - 1 }));
      ops.push_back(json::array({ int(VALUE_S), 1 }));
      c["ops"] = ops;
      for (int h = 0; h < 4; ++h)
        {
          json k = c;
          json st;
          st["ops"] = json::array({ json::array({ int(SENS_S), 1 }), json::array({ int(GRAD_S), 0 }) });
          st["touch"] = 0;
          st["set"] = json::object();
          if (h == 0)
            st["set"]["use_subset_sens"] = false;
          else if (h == 2)
            st["set"]["num_subsets"] = balanced.back() > N ? balanced.back() : N + 1;
          else if (h == 3)
            {
              k["use_subset_sens"] = false;
              st["set"]["use_subset_sens"] = true;
            }
          k["hist"] = json::array({ st });
          out.push_back(k);
        }
    }
  return out;
}

// all 720 first-use orders on a few small configurations (thorough: 20 configurations)
bool
enumerate(uint64_t idx, int tier, json& c)
{
  const uint64_t n = tier == 1 ? 20 : 2;
  if (idx >= n)
    return false;
  vf::PrngSrc s(0xC05 + 7919 * idx);
  c = gen_config(s, 20, idx % 2 == 0 ? 0 : 1);
  c["all_orders"] = true;
  c["order_subset"] = int(idx);
  c["sens_source"] = 0;
  c["second_object"] = false;
  c["sum_check"] = false;
  c["threshold_class"] = false;
  c["ops"] = json::array();
  if (f5_config(c))
    c["use_tofsens"] = true; // known finding F5 (all orders contain subset-sensitivity requests)
  return true;
}

bool
nontrivial(const json& c)
{
  const bool cfg = c["num_subsets"].get<int>() > 1 || c["pdi"]["tof_mash"].get<int>() > 0 || c["norm"].get<int>() > 0 || c["additive"].get<bool>();
  if (!cfg)
    return false;
  if (c.value("all_orders", false))
    return true;
  // order of first use different from (sensitivity, gradient, value)
  std::vector<int> first;
  for (const json& o : c["ops"])
    {
      const int b = base_kind(int(((o[0].get<long>() % NUM_KINDS) + NUM_KINDS) % NUM_KINDS));
      if (std::find(first.begin(), first.end(), b) == first.end())
        first.push_back(b);
    }
  const std::vector<int> canonical = { SENS_S, GRAD_S, VALUE_S };
  if (first.size() >= 3 && std::equal(canonical.begin(), canonical.end(), first.begin()))
    return false;
  return !first.empty();
}

} // namespace

const Property&
the_property()
{
  static Property p;
  p.id = "C05";
  p.gen = gen;
  p.check = check;
  p.nontrivial = nontrivial;
  p.enumerate = enumerate;
  p.fixed_cases = fixed_cases;
  p.shrink_lists = { "hist", "ops" };
  p.known_signature = known_signature;
  return p;
}

#!/bin/bash
# Convenience: run the quick (or given) tier of every check listed on the command line (default: claimed.txt)
# and print one status line each.  Usage: ./run_all.sh [quick|thorough] [ID ...]
cd "$(dirname "$0")"
tier=${1:-quick}; shift
ids=("$@"); [ ${#ids[@]} -eq 0 ] && mapfile -t ids < claimed.txt
rc=0
for id in "${ids[@]}"; do
  t0=$(date +%s)
  out=$(./check "$id" --tier "$tier" 2>&1); st=$?
  t1=$(date +%s)
  echo "$id exit=$st $((t1-t0))s $(echo "$out" | grep -E '^(OK|VIOLATION|KNOWN-FINDING)' | head -3 | tr '\n' ' ')"
  [ $st -ne 0 ] && { rc=1; echo "$out" | tail -5 | sed 's/^/    /'; }
done
exit $rc

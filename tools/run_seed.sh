#!/bin/bash
# Run a check of /verif against a seeded change: apply it to /repo, run the check, undo it straight afterwards.
# Usage: tools/run_seed.sh <patch.diff> <ID> [quick|thorough]      (one at a time: /repo is shared)
P=$(realpath "$1"); ID=$2; TIER=${3:-quick}
cd /verif
exec 9>/tmp/run_seed.lock; flock 9
git -C /repo status --short | grep -v '^??' && { echo "/repo dirty"; exit 2; }
git -C /repo apply "$P" || { echo "patch does not apply to /repo"; exit 2; }
trap 'git -C /repo checkout -q -- .' EXIT
t0=$(date +%s)
out=$(VERIF_SEED=${VERIF_SEED:-1} ./check "$ID" --tier "$TIER" 2>&1); st=$?
t1=$(date +%s)
echo "$ID tier=$TIER exit=$st $((t1-t0))s"
echo "$out" | grep -E "^(VIOLATION|OK|  detail)" | cut -c1-500
[ $st -eq 2 ] && echo "$out" | tail -n 15
# replays found against a seeded tree are not regression inputs of the unchanged tree
mkdir -p /tmp/seed_found/$ID; mv replays/$ID/found_*.json /tmp/seed_found/$ID/ 2>/dev/null
git checkout -q -- evidence/$ID.json 2>/dev/null
exit $st

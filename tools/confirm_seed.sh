#!/bin/bash
# Lead-side confirmation of a seeded change (independent of the sub-agent's own report), in the scratch worktree
# /tmp/confirm (full Release build incl. tests):  patch applies, everything compiles, the stable baseline tests pass,
# the demonstration fails with the change and passes without it.
# Usage: tools/confirm_seed.sh <dir with patch.diff demo.cxx build_demo.sh>     -> prints a summary, writes <dir>/confirm.log
D=$(realpath "$1"); W=${CONFIRM_WT:-/tmp/confirm}
export STIR_CONFIG_DIR=$W/src/config
LOG=$D/confirm.log; : > "$LOG"
git -C $W checkout -q -- . ; git -C $W status --short | grep -v '^??' && { echo "worktree dirty"; exit 2; }
git -C $W apply "$D/patch.diff" || { echo "PATCH DOES NOT APPLY"; exit 2; }
ninja -C $W/_b >> "$LOG" 2>&1 || { echo "BUILD FAILS with patch"; git -C $W checkout -q -- .; exit 2; }
( cd $W/_b && ctest -j6 --timeout 900 > "$D/confirm.ctest.log" 2>&1 )
python3 - "$D/confirm.ctest.log" <<'P' | tee -a "$LOG"
import sys,json,re
stable=set(x.split('::')[0] for x in json.load(open('/root/.vp/BASELINE.json'))['stable_pass'])
failed=set(re.findall(r'^\s*\d+ - (\S+) \(', open(sys.argv[1]).read(), re.M))
bad=sorted(failed & stable)
print("ctest with patch: failed stable tests:", bad if bad else "none", "| other failures:", sorted(failed-stable))
P
DD=/tmp/confirm_demo_$(basename $W); mkdir -p $DD && cd $DD && rm -rf ./* && cp "$D"/demo.cxx "$D"/build_demo.sh . 2>/dev/null; cp "$D"/*.h "$D"/*.hv "$D"/*.hs "$D"/*.par . 2>/dev/null
bash ./build_demo.sh $W >> "$LOG" 2>&1; ( timeout 900 ./demo > demo.with.out 2>&1 ); r1=$?
echo "demo WITH change: exit=$r1 :: $(tail -n 2 demo.with.out | tr '\n' ' ' | cut -c1-300)" | tee -a "$LOG"
git -C $W checkout -q -- . ; ninja -C $W/_b >> "$LOG" 2>&1
bash ./build_demo.sh $W >> "$LOG" 2>&1; ( timeout 900 ./demo > demo.without.out 2>&1 ); r2=$?
echo "demo WITHOUT change: exit=$r2 :: $(tail -n 1 demo.without.out | cut -c1-200)" | tee -a "$LOG"
cd /; rm -rf $DD
[ $r1 -ne 0 ] && [ $r2 -eq 0 ] && echo "CONFIRMED" | tee -a "$LOG"

#!/bin/bash
# confirm + run quick check for seeded changes: tools/seed_pipeline.sh C07/m1 C07/m2 ...   (results appended to /tmp/seed/results.txt)
for x in "$@"; do
  id=${x%%/*}; d=${SEED_OUT:-/tmp/seed/out}/$x
  exec 8>/tmp/confirm.lock.$(basename ${CONFIRM_WT:-/tmp/confirm}); flock 8
  c=$(/verif/tools/confirm_seed.sh $d 2>&1 | tail -n 4)
  flock -u 8
  r=$(/verif/tools/run_seed.sh $d/patch.diff $id quick 2>&1 | head -n 6)
  { echo "=== $x"; echo "$c"; echo "$r"; } >> ${SEED_RESULTS:-/tmp/seed/results.txt}
done

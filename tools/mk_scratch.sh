#!/bin/bash
# Create a scratch git worktree of /repo (outside /repo and /verif) with a ccache-backed Release build of the
# library and the test suite.  Usage: tools/mk_scratch.sh <dir> [notests]
# Remove with: git -C /repo worktree remove --force <dir>
set -e
D=$1
git -C /repo worktree add --detach "$D" HEAD >/dev/null 2>&1
export CCACHE_DIR=/tmp/ccache CCACHE_BASEDIR="$D" CCACHE_NOHASHDIR=1 CCACHE_MAXSIZE=8G
T=ON; [ "${2:-}" = notests ] && T=OFF
cmake -G Ninja -S "$D" -B "$D/_b" -DCMAKE_BUILD_TYPE=Release "-DCMAKE_CXX_FLAGS=-Wno-error -w" \
  "-DCMAKE_CXX_FLAGS_RELEASE=-O2 -DNDEBUG" -DCMAKE_CXX_COMPILER_LAUNCHER=ccache -DCMAKE_C_COMPILER_LAUNCHER=ccache \
  -DBUILD_DOCUMENTATION=OFF -DBUILD_EXECUTABLES=ON -DBUILD_TESTING=$T -DSTIR_OPENMP=${STIR_OPENMP:-OFF} -DGRAPHICS=None \
  -DBUILD_SWIG_PYTHON=OFF > "$D/_b.cfg.log" 2>&1
ninja -C "$D/_b" > "$D/_b.build.log" 2>&1
echo "scratch $D ready"

#!/usr/bin/env python3
"""Record a confirmed seeded change under /verif/seeded/<name>/ (patch.diff, demonstration, meta.json).
usage: record_seed.py <ID>/<mN> <name> <caught_by> <what> <needs>
Reads /tmp/seed/out/<ID>/<mN>/{patch.diff,demo.cxx,build_demo.sh,NOTES.md,confirm.log} and /tmp/seed/results.txt."""
import sys, os, shutil, json, re
src, name, caught, what, needs = sys.argv[1:6]
pid = src.split("/")[0]
sd = os.environ.get("SEED_OUT", "/tmp/seed/out") + "/" + src
dd = "/verif/seeded/" + name
os.makedirs(dd, exist_ok=True)
for f in ("patch.diff", "demo.cxx", "build_demo.sh", "NOTES.md"):
    if os.path.exists(os.path.join(sd, f)):
        shutil.copy(os.path.join(sd, f), dd)
conf = open(os.path.join(sd, "confirm.log")).read() if os.path.exists(os.path.join(sd, "confirm.log")) else ""
lines = [l for l in conf.splitlines() if l.startswith(("ctest with patch", "demo WITH", "demo WITHOUT", "CONFIRMED"))]
res = open(os.environ.get("SEED_RESULTS", "/tmp/seed/results.txt")).read().split("=== ")
mine = [r for r in res if r.startswith(src + "\n")]
chk = [l for l in (mine[-1].splitlines() if mine else []) if re.match(r"^(C\d\d tier=|VIOLATION|OK|  detail)", l)][:4]
meta = {"property": pid, "origin": "independent sub-agent given only the property text and a scratch worktree",
        "what": what, "needs": needs,
        "confirmed_by_lead": "tools/confirm_seed.sh in a scratch worktree (/tmp/confirm): " + " | ".join(lines),
        "check_run": "tools/run_seed.sh (git -C /repo apply; ./check %s --tier quick; git -C /repo checkout -- .): " % pid + " | ".join(c.strip()[:300] for c in chk),
        "caught_by": caught}
json.dump(meta, open(os.path.join(dd, "meta.json"), "w"), indent=1)
print("recorded", dd, "| confirmed" if "CONFIRMED" in conf else "| NOT CONFIRMED")

#!/usr/bin/env python3
"""Merge work/notes/<ID>_known_entries.json files (written by the harness authors) into known_findings.json.
Existing 'fixed' entries are kept; 'known' entries of a property are replaced by the file's entries.
The lead runs this by hand; nothing is ever written at check time."""
import json, glob, os, sys
V = os.path.dirname(os.path.dirname(os.path.abspath(__file__)))
kf = os.path.join(V, "known_findings.json")
cur = json.load(open(kf))
for f in sorted(glob.glob(os.path.join(V, "work", "notes", "C*_known_entries.json"))):
    ents = json.load(open(f))
    if not ents:
        continue
    pid = ents[0]["property"]
    for e in ents:
        assert e["status"] == "known" and e["property"] == pid and e["signature"] and e["what"], (f, e)
        assert os.path.exists(os.path.join(V, e["replay"])), (f, e["replay"])
    fixed_sigs = {c.get("signature") for c in cur if c.get("status") == "fixed" and c.get("property") == pid}
    cur = [c for c in cur if not (c.get("property") == pid and c.get("status") == "known")]
    cur += [e for e in ents if e["signature"] not in fixed_sigs]
    print(pid, len(ents), "known entries from", os.path.basename(f))
json.dump(cur, open(kf, "w"), indent=1)
print("total entries:", len(cur), " known:", sum(1 for c in cur if c["status"] == "known"), " fixed:", sum(1 for c in cur if c["status"] == "fixed"))

#!/usr/bin/env python3
"""Lead-side: apply the reviewed repairs of work/fixes/<DIR>/ : one 'fix:' commit per patch in /repo, then the harness overlay,
deletions and the known_findings.json update in /verif.
usage: tools/apply_fixes.py <DIR> [--skip 05,07] [--false-alarm <signature> ...]"""
import sys, os, json, glob, subprocess, shutil
V = "/verif"
d = os.path.join(V, "work", "fixes", sys.argv[1])
skip, false_alarm = set(), set()
a = sys.argv[2:]
while a:
    if a[0] == "--skip":
        skip |= set(a[1].split(",")); a = a[2:]
    elif a[0] == "--false-alarm":
        false_alarm.add(a[1]); a = a[2:]
    else:
        sys.exit("bad arg " + a[0])
def sh(*c, **k):
    return subprocess.run(c, check=True, text=True, stdout=subprocess.PIPE, **k).stdout
assert not [l for l in sh("git", "-C", "/repo", "status", "--short").splitlines() if not l.startswith("??")], "/repo dirty"
commits = {}
for p in sorted(glob.glob(os.path.join(d, "[0-9][0-9]_*.diff"))):
    nn = os.path.basename(p)[:2]
    if nn in skip:
        print("skipping", os.path.basename(p)); continue
    sh("git", "-C", "/repo", "apply", "--index", p)
    sh("git", "-C", "/repo", "commit", "-q", "-F", p[:-5] + ".msg")
    h = sh("git", "-C", "/repo", "rev-parse", "--short=9", "HEAD").strip()
    commits[os.path.basename(p)] = h
    print("committed", h, open(p[:-5] + ".msg").readline().strip())
ov = os.path.join(d, "verif_overlay")
if os.path.isdir(ov):
    sh("cp", "-r", ov + "/.", V + "/")
if os.path.exists(os.path.join(d, "delete.txt")):
    for l in open(os.path.join(d, "delete.txt")):
        l = l.strip()
        if l and os.path.exists(os.path.join(V, l)):
            os.remove(os.path.join(V, l)); print("deleted", l)
kf = json.load(open(os.path.join(V, "known_findings.json")))
ch = json.load(open(os.path.join(d, "changes.json"))) if os.path.exists(os.path.join(d, "changes.json")) else []
for c in ch:
    sig = c["signature"]
    ent = [k for k in kf if k.get("signature") == sig and k.get("status") == "known"]
    if sig in false_alarm or c["action"] == "false_alarm":
        kf = [k for k in kf if not (k.get("signature") == sig and k.get("status") == "known")]
        print("removed (false alarm):", sig); continue
    if c["action"] == "fixed" and c.get("patch") in commits:
        pid = ent[0]["property"] if ent else sys.argv[1][:3]
        new = {"status": "fixed", "property": pid, "commit": commits[c["patch"]], "signature": sig,
               "line": "fixed: property=%s %s %s" % (pid, commits[c["patch"]], c["what"]), "replay": c["replay"]}
        assert os.path.exists(os.path.join(V, c["replay"])), c["replay"]
        kf = [k for k in kf if not (k.get("signature") == sig and k.get("status") == "known")] + [new]
        print("fixed:", sig, commits[c["patch"]])
    else:
        print("kept:", sig)
json.dump(kf, open(os.path.join(V, "known_findings.json"), "w"), indent=1)

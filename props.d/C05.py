ID = "C05"
CONFIG = dict(
    harness="c05_loglik",
    flavours=["plain"],
    enumerates=True,
    exhaustive_claim=False,
    engines="rapidcheck (configurations x request orders) + enumeration (all 720 first-use orders on fixed small configurations)",
    technique="differential property testing against a double-precision reference on the explicit sparse system matrix (rows from a fresh symmetry-free cache-free ray-tracing matrix, TOF rows for TOF data); data generated from the reference model; operation sequences of requests after set_up; second object with the reverse order; one-subset object for the sum over subsets",
    rule="TODO",
    level_text="TODO",
    level_note="TODO",
    assumptions=[],
    quick=dict(workers=6, cases=300, seconds=45, size=50),
    thorough=dict(workers=16, cases=3000, seconds=900, size=100),
    nontrivial_floor=0.6,
)

ID = "C13"
CONFIG = dict(
    harness="c13_binnorm",
    flavours=["plain"],
    engines="rapidcheck (geometry x normalisation-object trees x symmetry groupings)",
    technique="placeholder",
    rule="placeholder",
    level_text="placeholder",
    level_note="placeholder",
    assumptions=[],
    quick=dict(workers=8, cases=400, seconds=45, size=60),
    thorough=dict(workers=16, cases=5000, seconds=1200, size=100),
)

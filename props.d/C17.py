ID = "C17"
CONFIG = dict(
    harness="c17_headers",
    harnesses=["c17_registry", "c17_keyparser", "c17_headers"],
    fuzz_harnesses=["c17_headers"],
    flavours=["plain", "asan"],
    fuzz=True,
    fuzz_max_len=4096,
    enumerates=False,
    engines="rapidcheck + enumeration (registries) + libFuzzer(ASan/UBSan)",
    technique="round-trip property over all registry entries, differential test of KeyParser against a reference mini-parser on grammar-generated text, grammar-aware mutation of library-written Interfile headers with consistency/size/allocation oracles, libFuzzer under ASan/UBSan through the same decoder",
    rule="(a) a registry entry with >= 1 parameter changed from its default that survives print/parse/print; (b) a generated KeyParser text with >= 1 vectorised or aliased key; (c,d) a mutated header that still has its start key and was either accepted (parse ran past the stop key / post_processing) or rejected by post_processing; distinct by case hash",
    level_text="Exploration: every registry entry is printed, parsed and printed again; KeyParser is compared with an independent reference parser on generated texts; library-written headers are mutated and fed to all readers, which must either reject cleanly or return an object consistent with the header and the data file, without sanitizer reports or allocations above 512 MiB.",
    level_note="Trusted: the reference mini-parser and the size bookkeeping in harness/c17_*.cxx.",
    assumptions=[],
    quick=dict(workers=2, cases=3000, seconds=30, size=60, run_flavours=["plain", "asan"], asan_workers=1, asan_cases=1000, fuzz_seconds=25, fuzz_jobs=2),
    thorough=dict(workers=4, cases=200000, seconds=600, size=100, run_flavours=["plain", "asan"], asan_workers=2, asan_cases=50000, fuzz_seconds=600, fuzz_jobs=8),
)

ID = "C17"
CONFIG = dict(
    harness="c17_headers",
    harnesses=["c17_registry", "c17_keyparser", "c17_headers"],
    fuzz_harnesses=["c17_headers"],
    flavours=["plain", "asan"],
    fuzz=True,
    fuzz_max_len=4096,
    enumerates=False,
    engines="rapidcheck + enumeration (registries) + libFuzzer(ASan/UBSan)",
    technique="round-trip property over all registry entries incl. histories of the object (copy constructor / clone() / operator= / re-parse / parse(filename) / use before printing), differential test of KeyParser (all parse overloads, remove_key) against a reference mini-parser on grammar-generated text, grammar-aware mutation of library-written Interfile headers with consistency/size/allocation oracles, list-length mutations of every list-valued / vectorised key with a reference model of the accepted object computed from the header text, end-of-text / start-of-text variants of every KeyParser text (final end-of-line removed, \\r\\n, bare \\r, blanks behind the last line, stop key as last line without end-of-line, no stop key) compared with the newline-terminated text through all parse overloads incl. a call-back key, metamorphic truncation clause on library-written headers (cut directly before the end-of-line of line k == cut directly behind it, \\r\\n headers == \\n headers: same decision and same object fingerprint), libFuzzer under ASan/UBSan through the same decoder",
    rule="(a) a registry entry with >= 1 parameter changed from its default that survives print/parse/print; (b) a generated KeyParser text with >= 1 vectorised or aliased key; (c,d) a mutated header (incl. the list-length mutations) that still has its start key and was either accepted (parse ran past the stop key / post_processing) or rejected by post_processing; distinct by case hash",
    level_text="Exploration: every registry entry is printed, parsed and printed again; KeyParser is compared with an independent reference parser on generated texts; library-written headers are mutated and fed to all readers, which must either reject cleanly or return an object consistent with the header and the data file, without sanitizer reports or allocations above 512 MiB; every list of a header is made shorter / longer / empty on its own and an accepted object is compared with a model computed from the text; copies, clones and used objects of every registered class must print and re-parse like the original; the last line of a text counts whether or not an end-of-line character follows it (KeyParser texts in nine end variants, library-written headers cut before and behind every end-of-line).",
    level_note="Trusted: the reference mini-parser, the size bookkeeping and the header text model in harness/c17_*.cxx.",
    assumptions=[],
    quick=dict(workers=2, cases=3000, seconds=30, size=60, run_flavours=["plain", "asan"], asan_workers=1, asan_cases=1000, fuzz_seconds=25, fuzz_jobs=2),
    thorough=dict(workers=4, cases=200000, seconds=600, size=100, run_flavours=["plain", "asan"], asan_workers=2, asan_cases=50000, fuzz_seconds=600, fuzz_jobs=8),
)

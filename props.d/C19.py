ID = "C19"
CONFIG = dict(
    harness="c19_fourier_filters",
    flavours=["plain"],
    enumerates=True,
    engines="enumeration (all power-of-two shapes x sign x real/complex for the transforms) + rapidcheck (filters, ranges, kernels, parameters)",
    technique="property-based testing against independent double-precision oracles: O(n^2) direct DFT per axis, direct zero/constant-boundary convolution on the requested output range, documented periodic convolution for the padded-DFT route, successive 1-D convolutions in all six axis orders for the separable classes, impulse-response probing of the Gaussian and Metz kernels",
    rule="TODO",
    level_text="TODO",
    level_note="TODO",
    assumptions=[],
    quick=dict(workers=8, cases=2500, seconds=40, size=60),
    thorough=dict(workers=16, cases=200000, seconds=900, size=100),
)

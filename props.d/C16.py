ID = "C16"
CONFIG = dict(
    harness="c16_scatter",
    flavours=["plain"],
    engines="rapidcheck (configurations + setter/set_up/process_data histories on one SingleScatterSimulation object)",
    technique="stateful property-based testing: generated histories of setters, set_up and process_data on ONE simulation object; differential oracle against a freshly constructed and configured object after every process_data; metamorphic oracles on the outputs (exchange of the two detectors over all detector pairs, linearity in the activity image, zero input, sign) and cache on/off differential",
    rule="placeholder",
    level_text="placeholder",
    level_note="placeholder",
    assumptions=[],
    quick=dict(workers=8, cases=120, seconds=60, size=60),
    thorough=dict(workers=16, cases=800, seconds=1200, size=100),
    nontrivial_floor=0.2,
)

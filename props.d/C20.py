ID = "C20"
CONFIG = dict(
    harness="c20_mlnorm",
    flavours=["plain"],
    engines="rapidcheck (scanner / data-size configurations) + enumeration of ALL detector pairs of the fan per configuration",
    technique="property-based testing with an independent model: per generated configuration all detector pairs of the fan are enumerated and compared with the bin get_bin_for_det_pos_pair assigns (distinct value per bin), with direct double loops for the three kinds of factors (geometric factors constant on symmetry classes computed by a union-find over the generating symmetries), exact-model fixed points, and a double-precision KL computed once per LOR",
    rule="placeholder",
    level_text="placeholder",
    level_note="placeholder",
    assumptions=[],
    quick=dict(workers=8, cases=400, seconds=40, size=60),
    thorough=dict(workers=16, cases=20000, seconds=1200, size=100),
)

ID = "C01"
CONFIG = dict(
    harness="c01_detpairs",
    flavours=["plain"],
    enumerates=True,
    engines="enumeration (all detector pairs per configuration; every even detector count) + rapidcheck (configurations)",
    technique="bounded-exhaustive enumeration of all detector pairs x ring pairs x TOF indices per generated configuration; set-equality oracle between reported fibres and computed preimages, inverse round trip, exchange law",
    rule="a case is one configuration (scanner, span, max ring difference, view mashing, TOF mashing, tangential/segment truncation); for it ALL ordered detector pairs x ring pairs x unmashed TOF indices are enumerated (ring stride >1 only for the largest predefined scanners, recorded in the case); configurations: predefined scanners at 2 (quick) or 5 (thorough) compressions, every even number of detectors per ring 4..160 (quick) / 4..1000 (thorough), and rapidcheck-generated cylindrical and blocks-on-cylindrical scanners; non-trivial = axial compression, view mashing, TOF mashing >1, truncated range, or a predefined scanner; distinct by configuration hash",
    level_text="For every explored configuration the pair->bin map is evaluated on all detector pairs and compared as sets with the lists and counts the bins report (both directions: nothing listed that is not assigned, nothing assigned that is not listed), the uncompressed maps are checked to be mutual inverses, the exchange law and the ring-pair partition are checked for all ring pairs. Exploration over configurations; exhaustive inside each configuration.",
    level_note="Trusted: the set bookkeeping in harness/c01_detpairs.cxx. Even TOF mashing factors are only used for the 'at most one bin' and exchange clauses (the library documents it cannot list pairs for them). Generic geometries with a crystal-map file are not generated (blocks-on-cylindrical are).",
    assumptions=["configurations rejected by STIR's constructors with error() are counted as rejected, not as passes"],
    quick=dict(workers=8, cases=400, seconds=35, size=60),
    thorough=dict(workers=16, cases=6000, seconds=900, size=100),
)

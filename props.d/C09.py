ID = "C09"
CONFIG = dict(
    harness="c09_priors",
    flavours=["plain"],
    engines="rapidcheck (configurations; all voxels as Hessian rows inside each case)",
    technique="property-based testing against a double-precision reference written from the class documentation; the reference's own gradient/Hessian are validated in every case against long double central differences of its own value/gradient; metamorphic relations on STIR alone",
    rule="TODO",
    level_text="TODO",
    level_note="TODO",
    assumptions=[],
    quick=dict(workers=8, cases=600, seconds=45, size=100),
    thorough=dict(workers=16, cases=30000, seconds=900, size=100),
    nontrivial_floor=0.6,
)

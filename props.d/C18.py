ID = "C18"
CONFIG = dict(
    harness="c18_threads",
    flavours=["omp"],
    confirm=(20, 3),   # schedule dependent: a candidate counts if it fails >= 3 times in 20 fresh runs
    engines="rapidcheck + schedule-perturbation hooks (UCL_STIR_VERIF)",
    technique="randomised schedule exploration: generated workloads/thread counts with yields, spins and sleeps injected at guarded schedule points (pure function of the case), differential oracle against the single-thread run, fresh objects per repetition",
    rule="a case = (small geometry, image, workload in {forward projection, back projection, log-likelihood value, subset gradient, subset sensitivity + gradient-plus-sensitivity, Hessian x vector, concurrent first use of the lazily built geometry tables}, threads 2..24, matrix cache mode, symmetry switches, perturbation seed/intensity/low-priority threads, 2-6 repetitions with fresh objects); non-trivial = >= 2 threads and >= 2 views of work; the evidence also counts cases in which one schedule point was hit by >= 2 threads",
    level_text="Each generated workload is computed single-threaded and then repeatedly with T threads under a generated perturbation of the schedule at the lazy-initialisation, cache, per-thread-image and loop sites; results must agree to 1e-4 of the maximum (float reassociation) and no run may throw or crash. Randomised search over schedules: good at lost/duplicated contributions and unlucky-but-not-rare interleavings.",
    level_note="The harness does not own the OpenMP/kernel scheduler: interleavings are perturbed, not enumerated; absence of deadlock is not decided (a driver time-out is reported as inconclusive); list-mode gradient and scatter simulation workloads are not yet included. Trusted: the single-thread run of the same build as reference.",
    assumptions=["reference = the same code run with one thread", "perturbation is injected only at the UCL_STIR_VERIF schedule points"],
    quick=dict(workers=2, cases=400, seconds=45, size=60, env={"OMP_WAIT_POLICY": "passive", "OMP_DYNAMIC": "false"}),
    thorough=dict(workers=2, cases=20000, seconds=1200, size=100, env={"OMP_WAIT_POLICY": "passive", "OMP_DYNAMIC": "false"}),
)

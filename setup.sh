#!/bin/bash
# setup_cmd: configure and build the verification flavours of /repo (out of tree, under
# /verif/build) and compile all harness binaries.  Offline; uses only installed tools.
# Usage: ./setup.sh [flavour ...]   (default: plain asan omp)
set -u
V=/verif
REPO=${VERIF_REPO:-/repo}
B=${VERIF_BUILD:-$V/build}
mkdir -p "$B" "$V/evidence" "$V/work"
export STIR_CONFIG_DIR=$REPO/src/config
# scratch builds (sensitivity runs against a mutated/patched copy of /repo) may share a compiler cache
LAUNCH=()
if [ -n "${VERIF_SCRATCH:-}" ] && command -v ccache >/dev/null; then
  export CCACHE_DIR=${CCACHE_DIR:-/tmp/ccache} CCACHE_BASEDIR=$REPO CCACHE_NOHASHDIR=1
  LAUNCH=(-DCMAKE_CXX_COMPILER_LAUNCHER=ccache -DCMAKE_C_COMPILER_LAUNCHER=ccache)
fi

COMMON_OPTS=(-G Ninja -DBUILD_TESTING=OFF -DBUILD_EXECUTABLES=OFF -DBUILD_DOCUMENTATION=OFF
  -DDISABLE_HDF5=ON -DDISABLE_ITK=ON -DDISABLE_CERN_ROOT=ON -DDISABLE_LLN_MATRIX=ON -DDISABLE_UPENN=ON
  -DDISABLE_NiftyPET_PROJECTOR=ON -DDISABLE_Parallelproj_PROJECTOR=ON
  -DGRAPHICS=None -DBUILD_SWIG_PYTHON=OFF -DCMAKE_BUILD_TYPE=Release -DSTIR_MPI=OFF)

configure() { # flavour
  local f=$1 d=$B/$1
  [ -f "$d/build.ninja" ] && return 0
  mkdir -p "$d"
  case $f in
    plain)
      cmake -S "$REPO" -B "$d" "${COMMON_OPTS[@]}" "${LAUNCH[@]}" -DSTIR_OPENMP=OFF \
        -DCMAKE_C_COMPILER=gcc -DCMAKE_CXX_COMPILER=g++ \
        "-DCMAKE_CXX_FLAGS=-I$V/harness/shim -DUCL_STIR_VERIF -Wno-error -w" \
        "-DCMAKE_C_FLAGS=-w" \
        "-DCMAKE_CXX_FLAGS_RELEASE=-O2 -g1" "-DCMAKE_C_FLAGS_RELEASE=-O2 -g1" ;;
    asan)
      cmake -S "$REPO" -B "$d" "${COMMON_OPTS[@]}" "${LAUNCH[@]}" -DSTIR_OPENMP=OFF \
        -DCMAKE_C_COMPILER=clang -DCMAKE_CXX_COMPILER=clang++ \
        "-DCMAKE_CXX_FLAGS=-I$V/harness/shim -DUCL_STIR_VERIF -w -fsanitize=fuzzer-no-link,address,undefined -fno-sanitize-recover=undefined -fno-sanitize=null,function -fno-omit-frame-pointer" \
        "-DCMAKE_C_FLAGS=-w -fsanitize=fuzzer-no-link,address,undefined -fno-sanitize-recover=undefined -fno-sanitize=null,function" \
        "-DCMAKE_CXX_FLAGS_RELEASE=-O1 -g1" "-DCMAKE_C_FLAGS_RELEASE=-O1 -g1" ;;
    omp)
      cmake -S "$REPO" -B "$d" "${COMMON_OPTS[@]}" "${LAUNCH[@]}" -DSTIR_OPENMP=ON \
        -DCMAKE_C_COMPILER=gcc -DCMAKE_CXX_COMPILER=g++ \
        "-DCMAKE_CXX_FLAGS=-I$V/harness/shim -DUCL_STIR_VERIF -Wno-error -w" \
        "-DCMAKE_C_FLAGS=-w" \
        "-DCMAKE_CXX_FLAGS_RELEASE=-O2 -g1" "-DCMAKE_C_FLAGS_RELEASE=-O2 -g1" ;;
    *) echo "unknown flavour $f" >&2; return 2 ;;
  esac
}

build() { # flavour
  local f=$1 d=$B/$1
  ( flock 9
    configure "$f" >"$d.configure.log" 2>&1 || { echo "configure $f failed; see $d.configure.log" >&2; tail -30 "$d.configure.log" >&2; exit 1; }
    ninja -C "$d" >"$d.build.log" 2>&1 || { echo "build $f failed; see $d.build.log" >&2; grep -E "error|FAILED" "$d.build.log" | head -30 >&2; exit 1; }
  ) 9>"$B/.$f.lock"
}

flavours=("$@")
[ ${#flavours[@]} -eq 0 ] && flavours=(plain asan omp)
pids=()
for f in "${flavours[@]}"; do build "$f" & pids+=($!); done
rc=0
for p in "${pids[@]}"; do wait "$p" || rc=1; done
[ $rc -ne 0 ] && exit 1
# compile every harness binary (the driver does this incrementally as well)
if [ -z "${VERIF_SETUP_NO_HARNESS:-}" ]; then
  "$V/check" --build-all || exit 1
fi
echo "setup ok"

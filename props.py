# Per-property configuration of the checks (read by ./check; MANIFEST.json is generated from it).
GUARD = "UCL_STIR_VERIF"

HOOKS = {
    "guard": GUARD,
    "enable": "verification builds under /verif/build/<flavour> are configured by setup.sh with -DUCL_STIR_VERIF in CMAKE_CXX_FLAGS (plus an include-path shim for assert()); the harness units are compiled with the same define",
    "baseline_off_cmd": "cmake --build /repo/_build -j16 && ctest --test-dir /repo/_build -j8 --timeout 900",
    "source_commits": ["5f63d4799"],
    "add_only": True,
}

ENGINES = [
    {"name": "rapidcheck", "path": "/verif/harness/common/verif_rt.cxx", "serves_properties": [], "kind_free_text": "rapidcheck generators + shrinking over JSON cases (one generator per property, choices through vf::Src)"},
    {"name": "enumeration", "path": "/verif/harness/common/verif_rt.cxx", "serves_properties": [], "kind_free_text": "bounded-exhaustive enumeration of a finite generated space (counter decoded into the same Case)"},
    {"name": "libFuzzer", "path": "/verif/harness/common/fuzz_rt.cxx", "serves_properties": [], "kind_free_text": "coverage-guided fuzzing (clang -fsanitize=fuzzer,address,undefined); bytes are decoded by the same generator into the same Case and decided by the same oracle"},
]

NOTES = "All checks: ./check <ID> --tier quick|thorough; VERIF_SEED is the only entropy. See DESIGN.md."

NOT_APPLICABLE = []

PROPS = {}


import glob as _glob, os as _os
for _f in sorted(_glob.glob(_os.path.join(_os.path.dirname(_os.path.abspath(__file__)), "props.d", "C*.py"))):
    _ns = {}
    exec(compile(open(_f).read(), _f, "exec"), _ns)
    PROPS[_ns["ID"]] = _ns["CONFIG"]

# Per-property configuration of the checks (read by ./check; MANIFEST.json is generated from it).
GUARD = "UCL_STIR_VERIF"

HOOKS = {
    "guard": GUARD,
    "enable": "verification builds under /verif/build/<flavour> are configured by setup.sh with -DUCL_STIR_VERIF in CMAKE_CXX_FLAGS (plus an include-path shim for assert()); the harness units are compiled with the same define",
    "baseline_off_cmd": "cmake --build /repo/_build -j16 && ctest --test-dir /repo/_build -j8 --timeout 900",
    "source_commits": ["5f63d4799", "667c45c39", "9b7794cda", "526482b4b"],
    "add_only": True,
}

ENGINES = [
    {"name": "rapidcheck", "path": "/verif/harness/common/verif_rt.cxx", "serves_properties": [], "kind_free_text": "rapidcheck generators + shrinking over JSON cases (one generator per property, choices through vf::Src)"},
    {"name": "enumeration", "path": "/verif/harness/common/verif_rt.cxx", "serves_properties": [], "kind_free_text": "bounded-exhaustive enumeration of a finite generated space (counter decoded into the same Case)"},
    {"name": "libFuzzer", "path": "/verif/harness/common/fuzz_rt.cxx", "serves_properties": [], "kind_free_text": "coverage-guided fuzzing (clang -fsanitize=fuzzer,address,undefined); bytes are decoded by the same generator into the same Case and decided by the same oracle"},
]

NOTES = "All checks: ./check <ID> --tier quick|thorough; VERIF_SEED is the only entropy. See DESIGN.md."

NOT_APPLICABLE = []

PROPS = {}


import glob as _glob, os as _os
for _f in sorted(_glob.glob(_os.path.join(_os.path.dirname(_os.path.abspath(__file__)), "props.d", "C*.py"))):
    _ns = {}
    exec(compile(open(_f).read(), _f, "exec"), _ns)
    PROPS[_ns["ID"]] = _ns["CONFIG"]

# Only properties listed in claimed.txt are registered in MANIFEST.json (edited by the lead once a check
# has been reviewed, calibrated and shown sensitive); the others are listed as not (yet) claimed.
_claimed = set(l.strip() for l in open(_os.path.join(_os.path.dirname(_os.path.abspath(__file__)), "claimed.txt")) if l.strip())
for _id, _cfg in PROPS.items():
    _cfg["claimed"] = _id in _claimed
_all_ids = ["C%02d" % i for i in range(1, 21)]
NOT_APPLICABLE = [{"property_id": i, "reason": "not claimed yet: the property-based check for it is still being built/calibrated (the technique applies; see DESIGN.md section 4)"}
                  for i in _all_ids if i not in _claimed]
